--------------------------------- MODULE RE ---------------------------------
(***************************************************************************)
(* The bluesky RunEngine at await-point granularity (DESIGN.md 2, 5, App.C)*)
(*                                                                         *)
(* One sequential run task (RunEngine._run) with parking places            *)
(*   start/paused (P0: _run_permit.wait), sleep0 (P1), cmd (P2: inside a   *)
(*   blocking command), tail (P3: sleep(0) after the plan ended),          *)
(* atomic request steps executed between two steps of the run task         *)
(* (request_pause, request_suspend, abort, stop, halt, status completion,  *)
(* monitor updates), and a caller that blocks on _blocking_event.          *)
(*                                                                         *)
(* The whole engine state is ONE record variable S (fields below), so an   *)
(* action is `S' = [S EXCEPT ...]`; obs is the sequence of observable      *)
(* events the step produces (same 6-tuples as harness/rec.py).             *)
(*                                                                         *)
(* Environment choices are PARAMETERS of the actions (generator reactions, *)
(* device outcomes); REMC.tla supplies them from plan programs and fault   *)
(* scripts, RETrace.tla from a recorded implementation trace.              *)
(***************************************************************************)
EXTENDS Naturals, Sequences, FiniteSets, TLC

CONSTANTS
  RunKeys,        \* run keys used by plans, e.g. {"", "k1"}
  Streams,        \* event stream names, e.g. {"primary", "interruptions", "mon1"}
  Dets, Motors, Mons, Pausables, Flyers,    \* device names by capability
  ReadVal,        \* [device -> string]  abstract reading ("dict:<keys>") returned by read
  DataKeys,       \* [device -> set of data keys] (collision check in a bundle)
  FutNames,       \* names of suspension futures
  StreamOrder,    \* the streams as a sequence (canonical order for num_events lines)
  DevOrder,       \* the devices as a sequence (canonical order for set-iteration device calls)
  Suspenders,     \* names of suspender objects (SuspendBoolHigh-like: trip on a truthy value, release on a falsy one)
  SigOf,          \* [suspender -> name of the signal it watches]   (at most one suspender per signal)
  SusFuts,        \* [suspender -> sequence of future names]: the asyncio.Event of its n-th trip
  NoReplayDevs,   \* pausable devices whose pause() raises NoReplayAllowed (the engine then resets its checkpoint state: nothing is
                  \* replayed after this pause / suspension); assumed disjoint from AsyncDevs
  SusBand,        \* suspenders whose resume condition is not the negation of the trip condition (SuspendFloor with resume_thresh):
                  \* signal value 2 lies in the dead band -- it neither trips nor releases
  AsyncDevs,      \* devices whose stop()/pause()/resume() are coroutines that really suspend (ophyd-async style):
                  \* every such call is a further parking place of the run task (pc = "aops")
  FlyStream,      \* [flyer -> name of the event stream its describe_collect() announces] (old-style, doubly nested)
  FlyN            \* [flyer -> number of events one collect() yields]

Devices == Dets \cup Motors \cup Mons \cup Flyers
Stageables == Dets \cup Motors

None == "None"
Table == [ idle       |-> {"running", "panicked"},
           running    |-> {"idle", "pausing", "halting", "stopping", "aborting", "suspending", "panicked"},
           pausing    |-> {"paused", "idle", "halting", "aborting", "panicked"},
           suspending |-> {"running", "halting", "aborting", "panicked"},
           paused     |-> {"idle", "running", "halting", "stopping", "aborting", "panicked"},
           halting    |-> {"idle", "panicked"},
           stopping   |-> {"idle", "panicked"},
           aborting   |-> {"idle", "panicked"},
           panicked   |-> {} ]
States == DOMAIN Table

Uncacheable == {"pause", "subscribe", "unsubscribe", "stage", "unstage", "monitor", "unmonitor", "open_run",
                "close_run", "install_suspender", "remove_suspender", "_start_suspender"}

\* exception kinds that are NOT Exception subclasses (not caught by `except Exception` in the run loop)
IsBaseOnly(e) == e \in {"PlanHalt", "GeneratorExit", "Cancelled"}

VARIABLES S, obs
vars == <<S, obs>>

----------------------------------------------------------------------------
(* events *)
Ev(k, a, b, c, d, m, n) == <<k, a, b, c, d, m, n>>
EvState(o, n) == Ev("state", o, n, "", "", 0, 0)
SusFutSet == UNION {{SusFuts[x][i] : i \in 1..Len(SusFuts[x])} : x \in Suspenders}
\* (the recorder cannot name a suspender's private asyncio.Event: its waits are logged with an empty argument)
EvMsg(m) == Ev("msg", m.cmd, m.obj, m.run, IF m.cmd \in {"wait_for", "_start_suspender"} /\ m.a \in SusFutSet THEN "" ELSE m.a, m.mid, 0)
EvDoc(name, stream, status, seq, ord) == Ev("doc", name, stream, status, "", seq, ord)
EvDev(d, op, arg, n) == Ev("dev", d, op, arg, "", n, 0)
EvGen(inp, val, react) == Ev("gen", inp, val, react, "", 0, 0)

\* Documents reach the consumers the plan subscribed itself (Dispatcher.process, in subscription order: after the permanent
\* subscribers).  Deliver(n, o) = the step's observations o with, after every document (and the num_events records that belong
\* to a RunStop), one delivery record per in-plan subscription live BEFORE the step (a step that changes the number emits no
\* documents).  Delivery records carry the document's name and run.
EvTDoc(e) == Ev("tdoc", e[2], "", "", "", 0, e[7])
RECURSIVE DeliverFrom(_, _, _, _)
DeliverFrom(n, o, i, owed) ==
  IF i > Len(o) THEN owed
  ELSE IF o[i][1] = "doc" THEN owed \o <<o[i]>> \o DeliverFrom(n, o, i + 1, [j \in 1..n |-> EvTDoc(o[i])])
  ELSE IF o[i][1] = "nev" THEN <<o[i]>> \o DeliverFrom(n, o, i + 1, owed)
  ELSE owed \o <<o[i]>> \o DeliverFrom(n, o, i + 1, <<>>)
Deliver(n, o) == IF n = 0 THEN o ELSE DeliverFrom(n, o, 1, <<>>)

(* messages *)
Msg(c, o, r, a) == [cmd |-> c, obj |-> o, run |-> r, a |-> a, mid |-> 0, pre |-> <<>>, post |-> <<>>]
NoMsg == Msg("", "", "", "")

(* responses: value or exception *)
Val(v) == [t |-> "val", v |-> v]
Exc(e) == [t |-> "exc", v |-> e]

(* generators on the plan stack *)
\*  env : the plan handed to RE(...): reactions are environment choices; p = program state kept for REMC
\*  list: a plain generator over a message list (rewind plan, single_gen, suspender helper): no handlers
EnvGen(p) == [k |-> "env", msgs |-> <<>>, pos |-> 0, p |-> p, done |-> FALSE]
ListGen(ms) == [k |-> "list", msgs |-> ms, pos |-> 0, p |-> 0, done |-> FALSE]

(* runs *)
ZeroCtr == [s \in Streams |-> 0]
ClosedRun == [open |-> FALSE, ord |-> 0, bundling |-> FALSE, bname |-> "", objs |-> <<>>,
              ctr |-> ZeroCtr, copy |-> ZeroCtr, descs |-> {}, dobjs |-> [s \in Streams |-> {}],
              mname |-> [d \in Mons |-> ""],      \* monitored device -> name of its event stream (Msg('monitor', obj, name=...))
              unrep |-> {},                        \* stream names that are never replayed (monitor streams; RunBundler._unreplayed_stream_names)
              dord |-> <<>>,      \* the streams that have a descriptor, in the order of RunBundler._descriptors (a dict)
              mons |-> {}, monsub |-> {}, intr |-> FALSE,
              dcache |-> {},      \* devices whose describe()/configuration are cached by this run's bundler
              uncol |-> {},       \* flyers kicked off in this run and not collected since (RunBundler._uncollected)
              ccache |-> {}]      \* flyers whose describe_collect()/configuration are cached by this run's bundler

NoCmd == [kind |-> "", a |-> "", sids |-> {}]

InitS ==
  [ st |-> "idle",          \* RunEngine._state
    pc |-> "none",          \* where the run task is
    permit |-> TRUE,        \* _run_permit.is_set()
    cancel |-> FALSE,       \* a task.cancel() is pending delivery
    hasTask |-> FALSE,      \* RunEngine._task is not None
    stashed |-> None,       \* stashed_exception (local of _run)
    exc |-> None,           \* RunEngine._exception
    interrupted |-> FALSE, exitStatus |-> "success", deferred |-> FALSE,
    gens |-> <<>>, resps |-> <<>>,              \* _plan_stack / _response_stack (top = last)
    cacheOn |-> TRUE, cache |-> <<>>, rewindable |-> TRUE,
    runs |-> [k \in RunKeys |-> ClosedRun],
    nextRun |-> 1, nextMid |-> 1, nextSid |-> 1,
    staged |-> {}, moved |-> {}, seen |-> {},
    groups |-> [g \in {} |-> {}],   \* group -> sids not yet waited for (RunEngine._groups)
    stDone |-> <<>>,        \* sid -> "pending" | "ok" | "fail"
    futs |-> {},            \* released suspension futures
    cmd |-> NoCmd,          \* the blocking command in progress at pc = "cmd"
    popped |-> FALSE,       \* resp is not the sentinel
    newResp |-> Val(None),  \* new_response
    cur |-> NoMsg,          \* message being executed
    exitExc |-> None,       \* exception that left the while loop
    taskExc |-> None,       \* exception the task will end with
    taskRes |-> "none",     \* "none" | "ok" | "cancelled" | exception kind
    caller |-> [phase |-> "idle", op |-> ""],
    blocking |-> FALSE,     \* _blocking_event.is_set()
    uids |-> 0,
    lateRet |-> "",         \* an abort/stop/halt call from another thread that is itself waiting for the run to end
    recIntr |-> FALSE,      \* RE.record_interruptions (set before the call)
    sus |-> [x \in Suspenders |-> [inst |-> FALSE, tripped |-> FALSE, ev |-> 0, gen |-> 0]],   \* suspender objects
    sigv |-> [x \in Suspenders |-> 0],      \* current value of the signal each suspender watches
    relq |-> {},            \* futures whose release (ev.set) is scheduled on the loop
    cbq |-> <<>>,           \* <<suspender, value>>: signal changes whose suspender callback has not run yet
    susq |-> <<>>,          \* futures whose request_suspend (scheduled by a suspender's callback) has not landed yet
    pendRet |-> <<>>,       \* suspender operations not yet reported complete
    pend |-> <<>>,          \* device operations <<device, op>> still to do when parked inside an awaiting device call
    cont |-> "",            \* what the parked sequence of device operations belongs to: "pausing" | "susp" | "resume" | "fin"
    finq |-> <<>>,          \* clean-up items <<run key, "mons" | flyer>> still to do (clear_monitors / backstop_collect per open run)
    reason |-> "",          \* RunEngine._reason: "" | "req" (the reason handed to an accepted abort())
    exitReason |-> "",      \* exit_reason (local of _run): "" | "exc" (the text of the exception that ended the plan)
    planRet |-> FALSE,      \* the plan ran to completion (StopIteration out of the last generator)
    tsubs |-> 0 ]           \* document consumers subscribed by the plan (Msg('subscribe')) in this call: len(_temp_callback_ids)

Init == S = InitS /\ obs = <<>>

OpenKeysOf(rs) == {k \in RunKeys : rs[k].open}
OpenKeys == OpenKeysOf(S.runs)

----------------------------------------------------------------------------
(* helpers on runs *)

\* RunBundler.reset_checkpoint_state: copy every counter that is present
ResetCopy(r) == [r EXCEPT !.copy = [s \in Streams |-> IF r.ctr[s] # 0 THEN r.ctr[s] ELSE r.copy[s]]]
\* RunEngine._reset_checkpoint_state_meth (no-op when there is no cache)
ResetCkpt(s) == IF ~s.cacheOn THEN s
                ELSE [s EXCEPT !.cache = <<>>,
                               !.runs = [k \in RunKeys |-> IF s.runs[k].open THEN ResetCopy(s.runs[k]) ELSE s.runs[k]]]

\* RunBundler.rewind: counters := copy, except that streams which are never replayed (interruptions, monitors)
\* keep their live counters; streams with a prepared descriptor re-seeded at 1; bundle cancelled
UnreplayedIn(r, s) == s = "interruptions" \/ s \in r.unrep
RewindRun(r) ==
  LET c == [s \in Streams |-> IF UnreplayedIn(r, s) /\ r.ctr[s] # 0 THEN r.ctr[s]
                               ELSE IF r.copy[s] # 0 THEN r.copy[s] ELSE IF s \in r.descs THEN 1 ELSE 0]
      cc == [s \in Streams |-> IF r.copy[s] # 0 THEN r.copy[s] ELSE IF s \in r.descs /\ ~(UnreplayedIn(r, s) /\ r.ctr[s] # 0) THEN 1 ELSE 0]
  IN [r EXCEPT !.ctr = c, !.copy = cc, !.bundling = FALSE]

\* RunEngine._rewind: returns the state with the cache emptied and (if it was non-empty) every open run rewound
Rewound(s) ==
  [s EXCEPT !.cache = <<>>,
            !.runs = IF Len(s.cache) > 0
                     THEN [k \in RunKeys |-> IF s.runs[k].open THEN RewindRun(s.runs[k]) ELSE s.runs[k]]
                     ELSE s.runs]

\* record_interruption: one event in the interruptions stream of every open run that records them.
\* compose_event needs the counter; if a rewind removed it the call raises KeyError.
IntrOK(r) == ~r.intr \/ r.ctr["interruptions"] # 0
AllIntrOK(s) == \A k \in OpenKeysOf(s.runs) : IntrOK(s.runs[k])
RECURSIVE IntrEvents(_, _)
IntrEvents(ks, rs) ==
  IF ks = {} THEN <<>>
  ELSE LET k == CHOOSE x \in ks : \A y \in ks : rs[x].ord <= rs[y].ord
       IN (IF rs[k].intr THEN <<EvDoc("event", "interruptions", "", rs[k].ctr["interruptions"], rs[k].ord)>> ELSE <<>>)
          \o IntrEvents(ks \ {k}, rs)
IntrBump(rs) == [k \in RunKeys |-> IF rs[k].open /\ rs[k].intr
                                   THEN [rs[k] EXCEPT !.ctr["interruptions"] = @ + 1] ELSE rs[k]]

\* device calls made while iterating a set of devices: canonical (DevOrder) order; the recorder normalises
\* maximal runs of equal device operations the same way
RECURSIVE DevOpsFrom(_, _, _)
DevOpsFrom(i, D, op) ==
  IF i > Len(DevOrder) THEN <<>>
  ELSE (IF DevOrder[i] \in D THEN <<EvDev(DevOrder[i], op, "", 0)>> ELSE <<>>) \o DevOpsFrom(i + 1, D, op)
DevOps(D, op) == DevOpsFrom(1, D, op)

\* the same as a list of <<device, op>> pairs; the list is carried out up to and including the first operation that
\* really awaits (an AsyncDevs device): the run task parks there (pc = "aops") with the rest in S.pend
RECURSIVE OpsFrom(_, _, _)
OpsFrom(i, D, op) ==
  IF i > Len(DevOrder) THEN <<>>
  ELSE (IF DevOrder[i] \in D THEN <<<<DevOrder[i], op>>>> ELSE <<>>) \o OpsFrom(i + 1, D, op)
OpsL(D, op) == OpsFrom(1, D, op)
Awaits(o) == o[1] \in AsyncDevs /\ o[2] \in {"stop", "pause", "resume"}
FirstAwait(L) == IF \E i \in 1..Len(L) : Awaits(L[i]) THEN CHOOSE i \in 1..Len(L) : Awaits(L[i]) /\ \A j \in 1..(i - 1) : ~Awaits(L[j]) ELSE 0
OpsDoneNow(L) == IF FirstAwait(L) = 0 THEN L ELSE SubSeq(L, 1, FirstAwait(L))
OpsLeft(L) == IF FirstAwait(L) = 0 THEN <<>> ELSE SubSeq(L, FirstAwait(L) + 1, Len(L))
OpsParks(L) == FirstAwait(L) # 0
EvOps(L) == [i \in 1..Len(L) |-> EvDev(L[i][1], L[i][2], IF L[i][2] = "pause" /\ L[i][1] \in NoReplayDevs THEN "noreplay" ELSE "", 0)]
\* some device paused by this pause sequence / suspension refuses replay
NoReplay(s) == s.seen \cap Pausables \cap NoReplayDevs # {}

\* num_events lines that follow a stop document (one per counter present, in StreamOrder)
RECURSIVE NevFrom(_, _, _)
NevFrom(i, ctr, ord) ==
  IF i > Len(StreamOrder) THEN <<>>
  ELSE (IF ctr[StreamOrder[i]] # 0 THEN <<Ev("nev", StreamOrder[i], "", "", "", ctr[StreamOrder[i]] - 1, ord)>> ELSE <<>>)
       \o NevFrom(i + 1, ctr, ord)
NevSeq(T, ctr, ord) == NevFrom(1, ctr, ord)

\* RunBundler.close_run: clear monitor subscriptions, stop document
CloseObs(r, status) == DevOps(r.mons, "clear_sub") \o <<EvDoc("stop", "", status, 0, r.ord)>> \o NevSeq(Streams, r.ctr, r.ord)

\* RunEngine._groups (a defaultdict): group -> statuses
GroupOf(s, g) == IF g \in DOMAIN s.groups THEN s.groups[g] ELSE {}
WithGroup(s, g, v) == [s EXCEPT !.groups = [x \in (DOMAIN s.groups) \cup {g} |-> IF x = g THEN v ELSE s.groups[x]]]
PopGroup(s, g) == [s EXCEPT !.groups = [x \in (DOMAIN s.groups) \ {g} |-> s.groups[x]]]

Push(s, g, r) == [s EXCEPT !.gens = Append(@, g), !.resps = Append(@, r)]
Top1(q) == q[Len(q)]
Pop1(q) == SubSeq(q, 1, Len(q) - 1)

----------------------------------------------------------------------------
(* caller-side actions (main thread) *)

\* RE(plan): 908-981.  p0 = initial program state of the environment generator.
\* Suspenders that are tripped when the call starts: the plan starts below a wait for their futures (925-966; modelled
\* for one tripped suspender at a time)
RECURSIVE TrippedFrom(_, _)
TrippedFrom(s, X) == IF X = {} THEN <<>>
                     ELSE LET x == CHOOSE y \in X : TRUE
                          IN (IF s.sus[x].inst /\ s.sus[x].tripped /\ s.sus[x].ev # 0 THEN <<SusFuts[x][s.sus[x].ev]>> ELSE <<>>) \o TrippedFrom(s, X \ {x})
TrippedFuts(s) == TrippedFrom(s, Suspenders)
Call(p0, ri) ==
  /\ S.caller.phase = "idle" /\ S.st = "idle" /\ S.pc \in {"none", "done"}
  /\ Len(TrippedFuts(S)) <= 1
  /\ S' = [S EXCEPT !.caller = [phase |-> "blocked", op |-> "run"],
                    !.deferred = FALSE, !.exc = None, !.exitStatus = "success", !.interrupted = FALSE,
                    !.cacheOn = TRUE, !.cache = <<>>,
                    !.staged = {}, !.moved = {}, !.seen = {}, !.uids = 0,
                    !.groups = [g \in {} |-> {}],
                    !.gens = IF TrippedFuts(S) = <<>> THEN <<EnvGen(p0)>>
                             ELSE <<EnvGen(p0), ListGen(<<Msg("wait_for", "", "", TrippedFuts(S)[1])>>)>>,
                    !.resps = IF TrippedFuts(S) = <<>> THEN <<Val(None)>> ELSE <<Val(None), Val(None)>>,
                    !.hasTask = FALSE, !.taskRes = "none", !.taskExc = None, !.exitExc = None, !.planRet = FALSE,
                    !.permit = TRUE, !.blocking = FALSE, !.cancel = FALSE, !.stashed = None, !.lateRet = "",
                    !.reason = "", !.exitReason = "",
                    !.tsubs = 0,        \* _clear_call_cache (949): the previous call's in-plan subscriptions are dropped HERE, not when it ended
                    !.pc = "start", !.recIntr = ri]
  /\ obs' = <<Ev("call", "run", IF ri THEN "ri" ELSE "", "", "", 0, 0)>>

\* the blocking call returns: _resume_task 1105-1129 then __call__/resume 983-990 / __interrupter_helper
RetOutcome(s) == IF s.taskRes \notin {"none", "ok", "cancelled"} THEN "exc:" \o s.taskRes
                 ELSE IF s.interrupted /\ s.caller.op \in {"run", "resume"} THEN "interrupted" ELSE "ok"
Return ==
  /\ S.caller.phase = "blocked" /\ S.blocking
  /\ S' = [S EXCEPT !.caller = [phase |-> "idle", op |-> ""]]
  /\ obs' = <<Ev("ret", S.caller.op, RetOutcome(S), S.st, IF S.deferred THEN "D" ELSE "", IF RetOutcome(S) = "ok" THEN S.uids ELSE 0,
                 IF S.cacheOn THEN 1 ELSE 0)>>

\* RE.resume(): 992-1023 (runs on the main thread while the run task is parked at the paused park)
CallResume ==
  /\ S.caller.phase = "idle" /\ S.st = "paused" /\ S.pc = "paused"
  /\ AllIntrOK(S)
  /\ LET s1 == [S EXCEPT !.runs = IntrBump(S.runs)]
         s2 == Rewound(s1)
         s3 == Push(s2, ListGen(S.cache), Val(None))
     IN S' = [s3 EXCEPT !.caller = [phase |-> "blocked", op |-> "resume"], !.interrupted = FALSE,
                        !.blocking = FALSE, !.permit = TRUE]
  /\ obs' = <<Ev("call", "resume", "", "", "", 0, 0)>> \o IntrEvents(OpenKeys, S.runs) \o DevOps(S.seen \cap Pausables, "resume")

\* RE.abort()/stop()/halt() from the paused state: the coroutine step, then _resume_task
TermState(op) == CASE op = "abort" -> "aborting" [] op = "stop" -> "stopping" [] op = "halt" -> "halting"
TermExc(op) == CASE op = "abort" -> "RequestAbort" [] op = "stop" -> "RequestStop" [] op = "halt" -> "PlanHalt"
CallTerminate(op) ==
  /\ S.caller.phase = "idle" /\ S.st = "paused" /\ S.pc = "paused"
  /\ op \in {"abort", "stop", "halt"}
  /\ S' = [S EXCEPT !.caller = [phase |-> "blocked", op |-> op], !.interrupted = TRUE,
                    !.st = TermState(op), !.exc = TermExc(op),
                    !.exitStatus = IF op \in {"abort", "halt"} THEN "abort" ELSE @,
                    !.reason = IF op = "abort" THEN "req" ELSE @,
                    !.blocking = FALSE, !.permit = TRUE]
  /\ obs' = <<Ev("call", op, "", "", "", 0, 0), EvState("paused", TermState(op))>>

----------------------------------------------------------------------------
(* request steps: atomic, between two steps of the run task *)
AtPark == S.pc \in {"start", "paused", "sleep0", "cmd", "tail", "aops", "bpark"}
TaskAlive == S.pc \notin {"none", "done"}

ReqObsA(kind, a, b, c, body, outcome) == <<Ev("req", kind, a, b, c, 0, 0)>> \o body \o <<Ev("reqret", kind, outcome, "", "", 0, 0)>>
ReqObs(kind, body, outcome) == ReqObsA(kind, "", "", "", body, outcome)

\* request_suspend -> _request_suspend 1225-1251 (its own task on the loop; its errors are swallowed there)
StartSuspMsg(f, pre, post) == [Msg("_start_suspender", "", "", f) EXCEPT !.pre = pre, !.post = post]
\* the effect of _request_suspend on state s: [s |-> new state, ev |-> state events]
SuspendEffect(s, f, pre, post) ==
  LET notRes == ~s.cacheOn
      wasPaused == s.st = "paused"
      \* branch 1 (not resumable): _interrupted, _exception := FailedPause, checked state := aborting, cancel unless paused
      s1ok == notRes /\ "aborting" \in Table[s.st]
      dies1 == notRes /\ "aborting" \notin Table[s.st]     \* the setter raises: the coroutine dies there
      st1 == IF s1ok THEN "aborting" ELSE s.st
      ev1 == IF s1ok THEN <<EvState(s.st, "aborting")>> ELSE <<>>
      push == ~dies1
      \* then: push the _start_suspender generator; if not paused: checked state := suspending, cancel
      s2try == push /\ st1 # "paused"
      s2ok == s2try /\ "suspending" \in Table[st1]
      st2 == IF s2ok THEN "suspending" ELSE st1
      ev2 == IF s2ok THEN <<EvState(st1, "suspending")>> ELSE <<>>
      s0 == [s EXCEPT !.interrupted = (@ \/ notRes), !.exc = IF notRes THEN "FailedPause" ELSE @,
                      !.st = st2, !.cancel = (@ \/ (s.hasTask /\ ((s1ok /\ ~wasPaused) \/ s2ok)))]
  IN [s |-> IF push THEN Push(s0, ListGen(<<StartSuspMsg(f, pre, post)>>), Val(None)) ELSE s0, ev |-> ev1 \o ev2]
\* RE.request_suspend(...) from another thread: the call only SCHEDULES _request_suspend on the loop (susq); it lands later
\* (SusLand) -- another request made right after it may be processed first; the harness reports it complete (SusRet) once
\* everything scheduled has landed
ReqSuspendA(f, pre, post, preId, postId) ==
  /\ AtPark /\ TaskAlive /\ f \in FutNames
  /\ S' = [S EXCEPT !.susq = Append(@, [f |-> f, pre |-> pre, post |-> post]), !.pendRet = Append(@, "suspend")]
  /\ obs' = <<Ev("req", "suspend", f, preId, postId, 0, 0)>>

ReqSuspend(f, pre, post) == ReqSuspendA(f, pre, post, "", "")

\* suspension requests that are scheduled on the loop land before the coroutine of a later (blocking) request runs:
\* callbacks are served in FIFO order
RECURSIVE LandAll(_)
LandAll(s) == IF s.susq = <<>> THEN [s |-> s, ev |-> <<>>]
              ELSE LET q == Head(s.susq)
                       e == SuspendEffect([s EXCEPT !.susq = Tail(@)], q.f, q.pre, q.post)
                       r == LandAll(e.s)
                   IN [s |-> r.s, ev |-> e.ev \o r.ev]

\* request_pause(defer) -> _request_pause_coro 836-854
ReqPause(defer) ==
  /\ AtPark /\ TaskAlive
  /\ LET kind == IF defer THEN "defer" ELSE "pause"
         l == LandAll(S)
         s == l.s
     IN
     IF s.st # "running" THEN
        /\ obs' = ReqObs(kind, l.ev, "exc:TransitionError") /\ S' = s
     ELSE IF defer THEN
        /\ S' = [s EXCEPT !.deferred = TRUE] /\ obs' = ReqObs(kind, l.ev, "ok")
     ELSE IF AllIntrOK(s) /\ s.hasTask THEN
        /\ S' = [s EXCEPT !.deferred = FALSE, !.interrupted = TRUE, !.st = "pausing",
                          !.runs = IntrBump(s.runs), !.cancel = TRUE]
        /\ obs' = ReqObs(kind, l.ev \o <<EvState("running", "pausing")>> \o IntrEvents(OpenKeysOf(s.runs), s.runs), "ok")
     ELSE
        \* record_interruption raises KeyError (counter removed by a rewind) or _task is None:
        \* the state is already 'pausing' but the task is never cancelled
        /\ S' = [s EXCEPT !.deferred = FALSE, !.interrupted = TRUE, !.st = "pausing"]
        /\ obs' = ReqObs(kind, l.ev \o <<EvState("running", "pausing")>>,
                         IF AllIntrOK(s) THEN "exc:Err:AttributeError" ELSE "exc:Err:KeyError")

\* the suspender's condition is released (asyncio.Event.set on the loop)
Release(f) ==
  /\ f \in FutNames /\ f \notin S.futs
  /\ S' = [S EXCEPT !.futs = @ \cup {f}]
  /\ obs' = ReqObsA("release", f, "", "", <<>>, "ok")

\* ---- suspender objects (bluesky.suspenders.SuspenderBase with a boolean condition), driven through the public API ----
\* SuspenderBase.__call__(value) for suspender x on state s (runs in the thread that changed the signal).  The suspension it
\* asks for is only SCHEDULED on the loop (susq): the engine's state is tested here, the request lands later (SusLand)
SusCallback(s, x, v) ==
  LET u == s.sus[x] IN
  IF ~u.inst \/ v = 2 THEN s          \* (2: inside the dead band of a SusBand suspender: nothing happens)
  ELSE IF v # 0 THEN
       \* condition tripped: an asyncio.Event is made the first time; a suspension is requested ONLY if the engine is 'running'
       IF u.ev # 0 THEN [s EXCEPT !.sus[x].tripped = TRUE]
       ELSE LET g == u.gen + 1
                s1 == [s EXCEPT !.sus[x] = [u EXCEPT !.tripped = TRUE, !.ev = g, !.gen = g]]
            IN IF s.st = "running" THEN [s1 EXCEPT !.susq = Append(@, [f |-> SusFuts[x][g], pre |-> <<>>, post |-> <<>>])] ELSE s1
  ELSE \* back to nominal: the event's set() is scheduled on the loop (sleep = 0), the suspender forgets the event
       [s EXCEPT !.sus[x] = [u EXCEPT !.tripped = FALSE, !.ev = 0],
                 !.relq = IF u.ev # 0 THEN @ \cup {SusFuts[x][u.ev]} ELSE @]
SusGenOK(x) == S.sus[x].gen < Len(SusFuts[x])
AnyTime == AtPark \/ ~TaskAlive
SusReq(kind, name, v) == <<Ev("req", kind, name, "", "", v, 0)>>
\* RE.install_suspender(x): subscribes to the signal with run=True -- the callback runs at once with the current value
SusInstall(x) ==
  /\ x \in Suspenders /\ SusGenOK(x) /\ AnyTime
  /\ S' = [SusCallback([S EXCEPT !.sus[x].inst = TRUE], x, S.sigv[x]) EXCEPT !.pendRet = Append(@, "sus_install")]
  /\ obs' = SusReq("sus_install", x, 0)
\* RE.remove_suspender(x): unsubscribes, releases the suspension it holds, forgets the engine; harmless when not installed
SusRemove(x) ==
  /\ x \in Suspenders /\ AnyTime
  /\ LET u == S.sus[x]
         s1 == IF u.inst THEN [S EXCEPT !.sus[x] = [u EXCEPT !.inst = FALSE, !.tripped = FALSE, !.ev = 0],
                                        !.relq = IF u.ev # 0 THEN @ \cup {SusFuts[x][u.ev]} ELSE @]
               ELSE S
     IN S' = [s1 EXCEPT !.pendRet = Append(@, "sus_remove")]
  /\ obs' = SusReq("sus_remove", x, 0)
\* the watched signal changes (sig.put(v)): logged, then the subscribed suspender's callback runs in the caller's thread --
\* concurrently with the loop thread, so a request scheduled just before may land before the callback tests the state
SigPut(sg, v) ==
  /\ AnyTime /\ v \in {0, 1, 2}
  /\ \E x \in Suspenders : SigOf[x] = sg /\ (v = 2 => x \in SusBand)
  /\ LET x == CHOOSE y \in Suspenders : SigOf[y] = sg
     IN \* (whether a callback runs at all is decided now: only a subscribed suspender is called)
        S' = [S EXCEPT !.sigv[x] = v, !.cbq = IF S.sus[x].inst THEN Append(@, <<x, v>>) ELSE @, !.pendRet = Append(@, "sig_put")]
  /\ obs' = SusReq("sig_put", sg, v)
SusCb ==
  /\ S.cbq # <<>> /\ AnyTime
  /\ LET x == Head(S.cbq)[1] v == Head(S.cbq)[2]
     IN /\ SusGenOK(x)
        /\ S' = SusCallback([S EXCEPT !.cbq = Tail(@)], x, v)
  /\ obs' = <<>>
\* a scheduled request_suspend lands on the loop (1225-1251, as ReqSuspend)
SusLand ==
  /\ S.susq # <<>> /\ AnyTime
  /\ LET q == Head(S.susq)
         e == SuspendEffect([S EXCEPT !.susq = Tail(@)], q.f, q.pre, q.post)
     IN S' = e.s /\ obs' = e.ev
\* the scheduled ev.set() runs on the loop (not logged: a silent step)
SusRelease(f) ==
  /\ f \in S.relq /\ AnyTime
  /\ S' = [S EXCEPT !.relq = @ \ {f}, !.futs = @ \cup {f}]
  /\ obs' = <<>>
\* the harness reports the operation as complete once everything it scheduled on the loop has landed
SusRet ==
  /\ S.pendRet # <<>> /\ S.susq = <<>> /\ S.cbq = <<>>
  /\ S' = [S EXCEPT !.pendRet = Tail(@)]
  /\ obs' = <<Ev("reqret", Head(S.pendRet), "ok", "", "", 0, 0)>>

\* RE.abort()/stop()/halt() from another thread while a call is in progress: 1330 / 1374 / 1438
ReqTerminate(op) ==
  /\ AtPark /\ TaskAlive /\ op \in {"abort", "stop", "halt"}
  /\ S.st # "paused"          \* (from paused these are caller decisions: CallTerminate)
  /\ LET l == LandAll(S)
         s == l.s
     IN
     IF s.st = "idle" THEN
        /\ obs' = ReqObs(op, l.ev, "exc:TransitionError") /\ S' = s
     ELSE IF TermState(op) \notin Table[s.st] THEN
        \* the checked setter raises before anything else is touched: a rejected request has no effect
        /\ S' = s
        /\ obs' = ReqObs(op, l.ev, "exc:TransitionError")
     ELSE
        /\ S' = [s EXCEPT !.interrupted = TRUE, !.exitStatus = IF op = "abort" THEN "abort" ELSE @,
                          !.reason = IF op = "abort" THEN "req" ELSE @,
                          !.st = TermState(op), !.cancel = (@ \/ s.hasTask)]
        /\ obs' = ReqObs(op, l.ev \o <<EvState(s.st, TermState(op))>>, IF s.hasTask THEN "ok" ELSE "exc:Err:AttributeError")

\* RE.abort()/stop()/halt() from another thread while the engine is paused and the main thread is inside resume() (the
\* permit is set, the run task has not woken up yet): __interrupter_helper sees 'paused', runs the coroutine (exception
\* slot, no cancel) and then itself blocks in _resume_task until the run has ended -- its return is observed late
ReqTerminatePaused(op) ==
  /\ S.pc = "paused" /\ S.st = "paused" /\ S.caller.phase = "blocked" /\ S.permit /\ S.lateRet = ""
  /\ op \in {"abort", "stop", "halt"}
  /\ S' = [S EXCEPT !.interrupted = TRUE, !.st = TermState(op), !.exc = TermExc(op),
                    !.exitStatus = IF op \in {"abort", "halt"} THEN "abort" ELSE @, !.lateRet = op,
                    !.reason = IF op = "abort" THEN "req" ELSE @]
  /\ obs' = <<Ev("req", op, "", "", "", 0, 0), EvState("paused", TermState(op))>>
\* (the helper thread and the main thread are both released by the task's done-callback: their returns come in either order)
LateReqRet ==
  /\ S.lateRet # "" /\ S.pc = "done" /\ S.blocking
  /\ S' = [S EXCEPT !.lateRet = ""]
  /\ obs' = <<Ev("reqret", S.lateRet, "ok", "", "", 0, 0)>>

\* a status object finishes later (timer) and _status_object_completed lands: 2365-2392
\* (pardon_failures is set in the finally block: after that failures are ignored)
StatusDone(sid, ok) ==
  /\ AtPark \/ S.pc \in {"none", "done"}
  /\ sid \in DOMAIN S.stDone /\ S.stDone[sid] = "pending"
  /\ S' = [S EXCEPT !.stDone[sid] = IF ok THEN "ok" ELSE "fail",
                    !.exc = IF ~ok /\ TaskAlive THEN "FailedStatus" ELSE @]
  /\ obs' = <<Ev("stat", "", "", "", "", sid, IF ok THEN 1 ELSE 0)>>

\* a monitored signal updates: every subscribed callback composes and emits an event (bundlers 442-462)
MonitorUpdate(d) ==
  /\ AtPark /\ d \in Mons
  /\ LET ks == {k \in RunKeys : d \in S.runs[k].monsub} IN
     /\ Cardinality(ks) <= 1
     /\ S' = [S EXCEPT !.runs = [k \in RunKeys |-> IF k \in ks THEN [S.runs[k] EXCEPT !.ctr[S.runs[k].mname[d]] = @ + 1] ELSE S.runs[k]]]
     /\ obs' = ReqObsA("update", d, "", "",
                        <<EvDev(d, "update", "", Cardinality(ks))>>
                        \o (IF ks = {} THEN <<>> ELSE LET k == CHOOSE k \in ks : TRUE
                                                         sn == S.runs[k].mname[d]
                                                     IN <<EvDoc("event", sn, "", S.runs[k].ctr[sn], S.runs[k].ord)>>), "ok")

----------------------------------------------------------------------------
(* run task *)

\* an exception leaves the while loop
ExitWith(s, e) == [s EXCEPT !.pc = "exit", !.exitExc = e]

\* first wake-up: 1487-1502
Start ==
  /\ S.pc = "start" /\ S.permit /\ ~S.cancel
  /\ IF "running" \in Table[S.st]
     THEN /\ S' = [S EXCEPT !.hasTask = TRUE, !.stashed = None, !.st = "running", !.pc = "top"]
          /\ obs' = <<EvState(S.st, "running")>>
     ELSE \* the checked setter raises inside the try block
          /\ S' = ExitWith([S EXCEPT !.hasTask = TRUE, !.stashed = None], "TransitionError")
          /\ obs' = <<>>

\* loop top: 1504-1548
AllMons(s) == UNION {s.runs[k].mons : k \in OpenKeysOf(s.runs)}
Top ==
  /\ S.pc = "top"
  /\ IF S.st \in {"pausing", "suspending"} /\ ~S.cacheOn THEN
        \* no checkpoint: FailedPause, aborting (pausing/suspending -> aborting is legal)
        /\ S' = [S EXCEPT !.permit = TRUE, !.stashed = "FailedPause", !.st = "aborting"]
        /\ obs' = <<EvState(S.st, "aborting")>>
     ELSE LET st1 == IF S.st = "suspending" THEN "running" ELSE S.st
              ev1 == IF S.st = "suspending" THEN <<EvState("suspending", "running")>> ELSE <<>>
          IN IF ~S.permit THEN
                \* pause sequence: suspend monitors, stop motors, pause devices, paused, release the caller
                IF st1 = "pausing" THEN
                   LET L == OpsL(AllMons(S), "clear_sub") \o OpsL(S.moved \cap Motors, "stop") \o OpsL(S.seen \cap Pausables, "pause")
                       s1 == [S EXCEPT !.runs = [k \in RunKeys |-> [S.runs[k] EXCEPT !.monsub = {}]]]
                   IN IF OpsParks(L) THEN
                         /\ S' = [s1 EXCEPT !.pc = "aops", !.cont = "pausing", !.pend = OpsLeft(L)]
                         /\ obs' = ev1 \o EvOps(OpsDoneNow(L))
                      ELSE
                         /\ S' = [(IF NoReplay(s1) THEN ResetCkpt(s1) ELSE s1) EXCEPT !.st = "paused", !.pc = "paused", !.blocking = TRUE]
                         /\ obs' = ev1 \o EvOps(L) \o <<EvState("pausing", "paused")>>
                ELSE \* `assert self._state == "pausing"` fails: AssertionError leaves the loop
                   /\ S' = ExitWith([S EXCEPT !.st = st1], "Err:AssertionError") /\ obs' = ev1
             ELSE
                /\ S' = [S EXCEPT !.st = st1, !.pc = IF S.stashed = None THEN "sleep0" ELSE "fetch", !.popped = FALSE]
                /\ obs' = ev1

\* woken from the paused park: 1539-1548
Wake ==
  /\ S.pc = "paused" /\ S.permit /\ ~S.cancel
  /\ S' = [S EXCEPT !.runs = [k \in RunKeys |-> [S.runs[k] EXCEPT !.monsub = S.runs[k].mons]],
                    !.st = IF S.st = "paused" THEN "running" ELSE @,
                    !.pc = IF S.stashed = None THEN "sleep0" ELSE "fetch", !.popped = FALSE]
  /\ obs' = DevOps(AllMons(S), "subscribe") \o (IF S.st = "paused" THEN <<EvState("paused", "running")>> ELSE <<>>)

\* resumed from sleep(0) without a pending cancel
AfterSleep0 ==
  /\ S.pc = "sleep0" /\ ~S.cancel
  /\ S' = [S EXCEPT !.pc = "fetch"] /\ obs' = <<>>

\* asyncio.CancelledError delivered at a park inside the loop (sleep0: resp is the sentinel; cmd: resp was popped,
\* new_response is None) -- handler 1708-1737.  `same`: the error is the very object that is stashed (only when it
\* came back out of the plan, see FetchThrow).
CancelHandler(s, same) ==
  LET s1 == [s EXCEPT !.cancel = FALSE]
      s2 == CASE s1.st = "pausing" -> [s1 EXCEPT !.permit = FALSE]
              [] s1.st \in {"halting", "stopping", "aborting"} ->
                    [s1 EXCEPT !.stashed = IF @ = None THEN
                                   (CASE s1.st = "halting" -> "PlanHalt" [] s1.st = "stopping" -> "RequestStop"
                                      [] OTHER -> "RequestAbort") ELSE @]
              [] s1.st = "suspending" -> s1
              [] OTHER -> IF same THEN ExitWith(s1, "Cancelled")
                          ELSE [s1 EXCEPT !.stashed = IF @ = None THEN "Cancelled" ELSE @]
      \* finally: push the new response if a response had been popped
      s3 == IF s2.popped THEN [s2 EXCEPT !.resps = Append(@, s2.newResp), !.popped = FALSE] ELSE s2
  IN IF s3.pc = "exit" THEN s3 ELSE [s3 EXCEPT !.pc = "top", !.cmd = NoCmd]

\* cached: for a cancel delivered inside _ensure_cached (read_cache / mon_cache) the gather children have either
\* completed (caches filled) or been cancelled with it -- both are possible schedules
DeliverCancel(cached) ==
  /\ S.pc \in {"sleep0", "cmd"} /\ S.cancel
  /\ LET inCache == S.pc = "cmd" /\ S.cmd.kind \in {"read_cache", "mon_cache", "collect_cache", "declare_cache"}
         s0 == IF inCache /\ cached
               THEN (IF S.cmd.kind = "collect_cache" THEN [S EXCEPT !.runs[S.cur.run].ccache = @ \cup {S.cur.obj}]
                     ELSE [S EXCEPT !.runs[S.cur.run].dcache = @ \cup {S.cur.obj}])
               ELSE S
     IN /\ (~inCache => cached)
        /\ S' = CancelHandler([s0 EXCEPT !.newResp = Val(None)], FALSE)
  /\ obs' = <<>>

----------------------------------------------------------------------------
(* fetching the next message: 1579-1641 *)
\* reaction of a generator: r = [k: "yield" | "return" | "raise", m: message, e: exception kind, p: new program state]
Reaction(k, m, e, p) == [k |-> k, m |-> m, e |-> e, p |-> p]

\* what a list generator does (no handlers): send -> next message or return; throw -> raises the same exception
ListReact(g, input) ==
  IF input.t = "exc" THEN Reaction("raise", NoMsg, input.v, 0)
  ELSE IF g.pos < Len(g.msgs) THEN Reaction("yield", g.msgs[g.pos + 1], None, 0)
  ELSE Reaction("return", NoMsg, None, 0)

\* the input the top generator gets in this iteration, given the popped response
FetchInput(s) ==
  LET r == Top1(s.resps)
      st1 == IF s.exc # None THEN s.exc ELSE s.stashed
  IN IF st1 # None THEN Exc(st1) ELSE r

\* Fetch(r): r is the reaction of the top generator to FetchInput; for list generators it is determined.
Fetch(r) ==
  /\ S.pc = "fetch"
  /\ LET g == Top1(S.gens)
         inp == FetchInput(S)
         s0 == [S EXCEPT !.resps = Pop1(@), !.exc = None, !.popped = TRUE, !.newResp = Val(None),
                         !.stashed = IF S.exc # None THEN S.exc ELSE @]
         isEnv == g.k = "env"
         \* Python: throwing into a generator that has not started raises immediately, its body (and therefore
         \* the instrumented wrapper that logs `gen` events) never runs
         unstarted == g.pos = 0 /\ inp.t = "exc"
         genEv == IF isEnv /\ ~unstarted THEN <<EvGen(IF inp.t = "exc" THEN "throw" ELSE "send", inp.v,
                                         IF r.k = "raise" THEN "raise:" \o r.e ELSE r.k)>> ELSE <<>>
         \* fresh messages get a fresh identity; replayed ones (list generators) keep theirs
         m1 == IF r.k = "yield" /\ r.m.mid = 0 THEN [r.m EXCEPT !.mid = S.nextMid] ELSE r.m
         g1 == [g EXCEPT !.pos = IF r.k = "yield" THEN @ + 1 ELSE @, !.p = r.p, !.done = (r.k # "yield")]
     IN
     /\ g.k = "list" => r = ListReact(g, inp)
     /\ unstarted => r = Reaction("raise", NoMsg, inp.v, r.p)
     /\ \/ /\ r.k = "yield"
           \* the generator yielded a message (clears a stashed exception that it handled)
           /\ S' = [s0 EXCEPT !.gens = [@ EXCEPT ![Len(@)] = g1], !.stashed = None, !.cur = m1, !.pc = "exec",
                              !.nextMid = IF m1.mid = S.nextMid THEN @ + 1 ELSE @]
           /\ obs' = genEv
        \/ /\ r.k = "return"
           \* StopIteration: via send -> pop, continue or leave the loop with StopIteration;
           \* via throw -> `except Exception as e` catches the StopIteration and stashes it for the next generator
           /\ LET s1 == [s0 EXCEPT !.gens = Pop1(@), !.popped = FALSE] IN
              S' = IF Len(s1.gens) > 0
                   THEN [s1 EXCEPT !.pc = "top", !.stashed = IF inp.t = "exc" THEN "StopIteration" ELSE @]
                   ELSE ExitWith([s1 EXCEPT !.planRet = TRUE], "StopIteration")
           /\ obs' = genEv
        \/ /\ r.k = "raise" /\ ~IsBaseOnly(r.e)
           /\ LET s1 == [s0 EXCEPT !.gens = Pop1(@), !.popped = FALSE] IN
              S' = IF Len(s1.gens) > 0 THEN [s1 EXCEPT !.pc = "top", !.stashed = r.e]
                   ELSE ExitWith(s1, r.e)
           /\ obs' = genEv
        \/ /\ r.k = "raise" /\ IsBaseOnly(r.e) /\ r.e # "Cancelled"
           \* PlanHalt / GeneratorExit propagate: finally pushes new_response (None), the loop is left,
           \* the generator stays on the stack (finished)
           /\ S' = ExitWith([s0 EXCEPT !.gens = [@ EXCEPT ![Len(@)] = g1], !.resps = Append(@, Val(None)), !.popped = FALSE], r.e)
           /\ obs' = genEv
        \/ /\ r.k = "raise" /\ r.e = "Cancelled"
           \* a CancelledError coming back out of the plan is handled like a delivered cancel (handler 1708)
           /\ S' = CancelHandler([s0 EXCEPT !.gens = [@ EXCEPT ![Len(@)] = g1], !.cancel = S.cancel],
                                 inp.t = "exc" /\ inp.v = "Cancelled")
           /\ obs' = genEv

----------------------------------------------------------------------------
(* executing a message: 1643-1695 and the command coroutines *)

\* push the response in the finally clause and go back to the loop top
Done(s, resp) == [s EXCEPT !.resps = Append(@, resp), !.popped = FALSE, !.pc = "top", !.cmd = NoCmd]
\* block inside the command (P2)
Block(s, kind, a, sids) == [s EXCEPT !.pc = "cmd", !.cmd = [kind |-> kind, a |-> a, sids |-> sids]]

Cached(s, m) == IF s.cacheOn /\ s.rewindable /\ m.cmd \notin Uncacheable THEN [s EXCEPT !.cache = Append(@, m)] ELSE s

RunOf(s, m) == s.runs[m.run]
IsOpen(s, m) == m.run \in RunKeys /\ s.runs[m.run].open
SetRun(s, k, r) == [s EXCEPT !.runs[k] = r]
IMS == Exc("IMS")

\* the suspender helper plan pushed by _start_suspender: 1281-1305
HelperMsgs(m, wasRew, rewindMsgs) ==
  <<Msg("rewindable", "", "", "F")>> \o m.pre \o <<Msg("wait_for", "", "", m.a), Msg("_resume_from_suspender", "", "", "")>>
  \o m.post \o <<Msg("rewindable", "", "", IF wasRew THEN "T" ELSE "F")>> \o rewindMsgs

\* a new status object created by a device call: d = outcome chosen by the environment
\*   "ok"     finished successfully when returned (its completion callback lands before the next run-task step)
\*   "fail"   finished unsuccessfully when returned
\*   "later"  still pending (a StatusDone step finishes it)
NewStatus(s, group, d) ==
  LET sid == s.nextSid IN
  [WithGroup(s, group, GroupOf(s, group) \cup {sid})
     EXCEPT !.nextSid = @ + 1,
            !.stDone = Append(@, CASE d = "ok" -> "ok" [] d = "fail" -> "fail" [] OTHER -> "pending"),
            !.exc = IF d = "fail" THEN "FailedStatus" ELSE @]
StatEv(s, d) == IF d \in {"ok", "fail"} THEN <<Ev("stat", "", "", "", "", s.nextSid, IF d = "ok" THEN 1 ELSE 0)>> ELSE <<>>

GroupDone(s, sids) == \A x \in sids : s.stDone[x] # "pending"
GroupFailed(s, sids) == \E x \in sids : s.stDone[x] = "fail"

\* Exec(d): d = device outcome for commands that call a device ("ok" | "raise" | "fail" | "later" | "nostatus"); "ok" otherwise
\*   "nostatus": the device call returns something that is not a status (None): _add_status_to_group raises AttributeError
\*               AFTER the device has been touched (and after it has been noted as moved / uncollected)
\* RunBundler.monitor: the event stream is named by the message (name=...), by default after the device in this harness
MonName(m) == IF m.a # "" THEN m.a ELSE m.obj
MonApply(r, m) ==
  LET sn == MonName(m) IN
  [r EXCEPT !.mons = @ \cup {m.obj}, !.monsub = @ \cup {m.obj}, !.mname[m.obj] = sn, !.unrep = @ \cup {sn},
            !.descs = @ \cup {sn}, !.dobjs[sn] = {m.obj}, !.dord = IF sn \in r.descs THEN @ ELSE Append(@, sn),
            !.ctr[sn] = IF @ = 0 THEN 1 ELSE @]

\* _start_suspender after the devices have been put to rest: rewind, push the helper plan (1275-1309)
SuspRest(s0) ==
  IF ~s0.cacheOn THEN Done(s0, Exc("Err:TypeError"))      \* len(None) in _rewind
  ELSE LET s1 == IF NoReplay(s0) THEN ResetCkpt(s0) ELSE s0      \* (a paused device raised NoReplayAllowed: cache emptied first)
           s2 == Rewound(s1)
           helper == ListGen(HelperMsgs(s1.cur, s1.rewindable, s1.cache))
       \* the helper is pushed by the command itself; the command's own response (None) is
       \* pushed afterwards by the finally clause -- ABOVE the helper's initial response
       IN Done(Push(s2, helper, Val(None)), Val(None))

\* RunBundler.collect for one old-style EventCollectable flyer (1014-1166), after _ensure_cached: the stream announced by
\* describe_collect() is described the first time; the flyer's events leave as ONE event page (recorded row by row); the
\* counters are shared with event-model's compose_event.  bad: the device's collect() raises (before its first event)
CollectCore(r, f, bad) ==
  LET sn == FlyStream[f]
      have == sn \in r.descs /\ f \in r.dobjs[sn]
      c0 == IF r.ctr[sn] # 0 THEN r.ctr[sn] ELSE 1
      rA == [r EXCEPT !.uncol = @ \ {f}, !.ccache = @ \cup {f}, !.descs = @ \cup {sn}, !.dobjs[sn] = IF have THEN @ ELSE {f},
                      !.dord = IF sn \in r.descs THEN @ ELSE Append(@, sn),
                      !.ctr[sn] = c0, !.copy[sn] = IF r.ctr[sn] = 0 THEN 1 ELSE @]
      oDesc == IF have THEN <<>> ELSE <<EvDoc("descriptor", sn, "", 0, r.ord)>>
  IN IF bad THEN [r |-> rA, o |-> oDesc \o <<EvDev(f, "collect", "raise", 0)>>]
     ELSE [r |-> [rA EXCEPT !.ctr[sn] = c0 + FlyN[f]],
           o |-> oDesc \o <<EvDev(f, "collect", "", 0)>> \o [i \in 1..FlyN[f] |-> EvDoc("event", sn, "", c0 + i - 1, r.ord)]]

Exec(d) ==
  /\ S.pc = "exec"
  /\ LET m == S.cur
         s0 == Cached([S EXCEPT !.seen = IF m.obj # "" THEN @ \cup {m.obj} ELSE @], m)
         c == m.cmd
         r == IF m.run \in RunKeys THEN s0.runs[m.run] ELSE ClosedRun
         open == IsOpen(s0, m)
         hook == <<EvMsg(m)>>
     IN
     CASE c \in {"null", "RE_class"} ->
            /\ d = "ok" /\ S' = Done(s0, Val(IF c = "null" THEN None ELSE "type:RunEngine")) /\ obs' = hook
       [] c = "subscribe" ->
            \* _subscribe (2599-2643): a per-call document consumer is registered (Dispatcher.tla has the token bookkeeping; it is
            \* dropped again when the call ends), the checkpoint state is reset (an implicit checkpoint: nothing before this message
            \* is replayed), the plan receives the token
            /\ d = "ok" /\ S' = Done(ResetCkpt([s0 EXCEPT !.tsubs = @ + 1]), Val("token")) /\ obs' = hook
       [] c = "unsubscribe" ->
            \* _unsubscribe (2645-2663) of a token the plan got from an earlier subscribe of this call (an unknown token is a KeyError:
            \* not generated): the consumer is removed at once, implicit checkpoint
            /\ d = "ok" /\ s0.tsubs > 0 /\ S' = Done(ResetCkpt([s0 EXCEPT !.tsubs = @ - 1]), Val(None)) /\ obs' = hook
       [] c = "open_run" ->
            /\ d = "ok"
            /\ IF open THEN S' = Done(s0, IMS) /\ obs' = hook
               ELSE LET r1 == [ClosedRun EXCEPT !.open = TRUE, !.ord = s0.nextRun, !.intr = s0.recIntr,
                                                !.ctr = IF s0.recIntr THEN [ZeroCtr EXCEPT !["interruptions"] = 1] ELSE ZeroCtr]
                    IN /\ S' = Done([SetRun(s0, m.run, r1) EXCEPT !.nextRun = @ + 1, !.uids = @ + 1], Val("str"))
                       /\ obs' = hook \o <<EvDoc("start", "", "", 0, s0.nextRun)>>
                                 \o (IF s0.recIntr THEN <<EvDoc("descriptor", "interruptions", "", 0, s0.nextRun)>> ELSE <<>>)
       [] c = "close_run" ->
            /\ d = "ok"
            /\ IF ~open THEN S' = Done(s0, IMS) /\ obs' = hook
               ELSE \* the run is closed and the rewind cache is reset (close_run is an implicit checkpoint)
                    /\ S' = Done(ResetCkpt(SetRun(s0, m.run, ClosedRun)), Val("str"))
                    /\ obs' = hook \o CloseObs(r, IF m.a = "" THEN "success" ELSE m.a)
       [] c = "create" ->
            /\ d = "ok"
            /\ IF ~open \/ r.bundling THEN S' = Done(s0, IMS) /\ obs' = hook
               ELSE S' = Done(SetRun(s0, m.run, [r EXCEPT !.bundling = TRUE, !.bname = m.a, !.objs = <<>>]), Val(None)) /\ obs' = hook
       [] c = "read" ->
            /\ d \in {"ok", "raise"}
            /\ IF d = "raise" THEN S' = Done(s0, Exc("DevErr")) /\ obs' = hook \o <<EvDev(m.obj, "read", "raise", 0)>>
               ELSE IF open /\ r.bundling THEN
                    \* RunBundler.read: _ensure_cached awaits asyncio.gather(describe, describe_configuration,
                    \* read_configuration) the first time a device is read in this run: a real suspension point
                    IF m.obj \notin r.dcache THEN S' = Block(s0, "read_cache", "", {}) /\ obs' = hook \o <<EvDev(m.obj, "read", "", 0)>>
                    ELSE IF \E i \in 1..Len(r.objs) : DataKeys[r.objs[i]] \cap DataKeys[m.obj] # {}
                    THEN S' = Done(s0, Exc("Err:ValueError")) /\ obs' = hook \o <<EvDev(m.obj, "read", "", 0)>>
                    ELSE S' = Done(SetRun(s0, m.run, [r EXCEPT !.objs = Append(@, m.obj)]), Val(ReadVal[m.obj]))
                         /\ obs' = hook \o <<EvDev(m.obj, "read", "", 0)>>
               ELSE S' = Done(s0, Val(ReadVal[m.obj])) /\ obs' = hook \o <<EvDev(m.obj, "read", "", 0)>>
       [] c = "save" ->
            /\ d = "ok"
            /\ IF ~open \/ ~r.bundling THEN S' = Done(s0, IMS) /\ obs' = hook
               ELSE IF r.objs = <<>> THEN
                    S' = Done(SetRun(s0, m.run, [r EXCEPT !.bundling = FALSE, !.bname = ""]), Val(None)) /\ obs' = hook
               ELSE LET sname == r.bname
                        objset == {r.objs[i] : i \in 1..Len(r.objs)}
                        have == sname \in r.descs
                    IN IF have /\ r.dobjs[sname] # objset THEN
                          S' = Done(SetRun(s0, m.run, [r EXCEPT !.bundling = FALSE, !.bname = ""]), Exc("Err:RuntimeError")) /\ obs' = hook
                       ELSE LET c0 == IF have \/ r.ctr[sname] # 0 THEN r.ctr[sname] ELSE 1
                                r1 == [r EXCEPT !.bundling = FALSE, !.bname = "",
                                                !.descs = @ \cup {sname}, !.dobjs[sname] = objset,
                                                !.dord = IF have THEN @ ELSE Append(@, sname),
                                                !.ctr[sname] = c0 + 1]
                            IN /\ S' = Done(SetRun(s0, m.run, r1), Val(None))
                               /\ obs' = hook \o (IF have THEN <<>> ELSE <<EvDoc("descriptor", sname, "", 0, r.ord)>>)
                                         \o <<EvDoc("event", sname, "", c0, r.ord)>>
       [] c = "configure" ->
            \* RunEngine._configure 2512-2536 + RunBundler.configure: rejected inside a bundle (before the device is touched);
            \* the device is configured; every stream of the message's run whose descriptor lists the device is described
            \* again (in the order of the _descriptors dict, each re-inserted at its end); counters are not touched
            /\ d \in {"ok", "raise"}
            /\ IF open /\ r.bundling THEN d = "ok" /\ S' = Done(s0, IMS) /\ obs' = hook
               ELSE IF d = "raise" THEN S' = Done(s0, Exc("DevErr")) /\ obs' = hook \o <<EvDev(m.obj, "configure", "raise", 0)>>
               ELSE IF ~open THEN S' = Done(s0, Val("seq:2")) /\ obs' = hook \o <<EvDev(m.obj, "configure", "", 0)>>
               ELSE LET hit == SelectSeq(r.dord, LAMBDA sn : m.obj \in r.dobjs[sn])
                        rest == SelectSeq(r.dord, LAMBDA sn : m.obj \notin r.dobjs[sn])
                    IN /\ S' = Done(SetRun(s0, m.run, [r EXCEPT !.dord = rest \o hit]), Val("seq:2"))
                       /\ obs' = hook \o <<EvDev(m.obj, "configure", "", 0)>>
                                 \o [i \in 1..Len(hit) |-> EvDoc("descriptor", hit[i], "", 0, r.ord)]
       [] c = "install_suspender" ->
            \* RunEngine._install_suspender -> install_suspender: as SusInstall, executed by the run task itself
            /\ d = "ok" /\ m.a \in Suspenders /\ SusGenOK(m.a)
            /\ S' = Done(SusCallback([s0 EXCEPT !.sus[m.a].inst = TRUE], m.a, s0.sigv[m.a]), Val(None))
            /\ obs' = hook
       [] c = "remove_suspender" ->
            /\ d = "ok" /\ m.a \in Suspenders
            /\ LET u == s0.sus[m.a]
                   s1 == IF u.inst THEN [s0 EXCEPT !.sus[m.a] = [u EXCEPT !.inst = FALSE, !.tripped = FALSE, !.ev = 0],
                                                   !.relq = IF u.ev # 0 THEN @ \cup {SusFuts[m.a][u.ev]} ELSE @]
                         ELSE s0
               IN S' = Done(s1, Val(None))
            /\ obs' = hook
       [] c = "declare_stream" ->
            \* RunEngine._declare_stream -> RunBundler.declare_stream 266-296 (one object, collect=False): needs an open run; always
            \* awaits asyncio.gather(_ensure_cached(obj)) -- a gather of one coroutine suspends even when everything is cached
            /\ d = "ok"
            /\ IF ~open THEN S' = Done(s0, IMS) /\ obs' = hook
               ELSE S' = Block(s0, "declare_cache", "", {}) /\ obs' = hook
       [] c = "drop" ->
            /\ d = "ok"
            /\ IF ~open \/ ~r.bundling THEN S' = Done(s0, IMS) /\ obs' = hook
               ELSE S' = Done(SetRun(s0, m.run, [r EXCEPT !.bundling = FALSE, !.bname = ""]), Val(None)) /\ obs' = hook
       [] c = "checkpoint" ->
            /\ d = "ok"
            /\ IF \E k \in OpenKeysOf(s0.runs) : s0.runs[k].bundling THEN S' = Done(s0, IMS) /\ obs' = hook
               ELSE LET s1 == ResetCkpt([s0 EXCEPT !.cacheOn = TRUE, !.cache = IF s0.cacheOn THEN @ ELSE <<>>]) IN   \* a checkpoint ends a non-resumable section
                    IF s1.deferred THEN S' = Block(s1, "ckpt_sleep", "", {}) /\ obs' = hook
                    ELSE S' = Done(s1, Val(None)) /\ obs' = hook
       [] c = "clear_checkpoint" ->
            /\ d = "ok"
            /\ S' = Done([s0 EXCEPT !.cacheOn = FALSE, !.cache = <<>>,
                                    !.runs = [k \in RunKeys |-> IF s0.runs[k].open THEN [s0.runs[k] EXCEPT !.copy = ZeroCtr] ELSE s0.runs[k]]],
                         Val(None))
            /\ obs' = hook
       [] c = "rewindable" ->
            /\ d = "ok"
            /\ LET nv == IF m.a = "" THEN s0.rewindable ELSE (m.a = "T")
                   s1 == [s0 EXCEPT !.rewindable = nv]
                   s2 == IF s1.cacheOn /\ nv # s0.rewindable THEN ResetCkpt(s1) ELSE s1
               IN S' = Done(s2, Val(IF nv THEN "bool:True" ELSE "bool:False")) /\ obs' = hook
       [] c = "pause" ->
            \* Msg('pause', defer=...): _request_pause_coro inline; TransitionError becomes the response
            /\ d = "ok"
            /\ IF s0.st # "running" THEN S' = Done(s0, Exc("TransitionError")) /\ obs' = hook
               ELSE IF m.a = "T" THEN S' = Done([s0 EXCEPT !.deferred = TRUE], Val(None)) /\ obs' = hook
               ELSE IF AllIntrOK(s0) THEN
                    /\ S' = Done([s0 EXCEPT !.deferred = FALSE, !.interrupted = TRUE, !.st = "pausing",
                                            !.runs = IntrBump(s0.runs), !.cancel = TRUE], Val(None))
                    /\ obs' = hook \o <<EvState("running", "pausing")>> \o IntrEvents(OpenKeysOf(s0.runs), s0.runs)
               ELSE /\ S' = Done([s0 EXCEPT !.deferred = FALSE, !.interrupted = TRUE, !.st = "pausing"], Exc("Err:KeyError"))
                    /\ obs' = hook \o <<EvState("running", "pausing")>>
       [] c = "sleep" ->
            /\ d = "ok" /\ S' = Block(s0, "sleep", "", {}) /\ obs' = hook
       [] c = "wait_for" ->
            /\ d = "ok" /\ S' = Block(s0, "wait_for", m.a, {}) /\ obs' = hook
       [] c = "wait" ->
            /\ d = "ok"
            /\ LET sids == GroupOf(s0, m.a) IN
               IF sids = {} THEN S' = Done(PopGroup(s0, m.a), Val("bool:True")) /\ obs' = hook
               ELSE S' = Block(PopGroup(s0, m.a), "wait", m.a, sids) /\ obs' = hook
       [] c \in {"set", "trigger"} ->
            /\ d \in {"ok", "raise", "fail", "later", "nostatus"}
            /\ LET s1 == IF c = "set" THEN [s0 EXCEPT !.moved = @ \cup {m.obj}] ELSE s0 IN
               IF d = "raise" THEN S' = Done(s1, Exc("DevErr")) /\ obs' = hook \o <<EvDev(m.obj, c, "raise", 0)>>
               ELSE IF d = "nostatus" THEN S' = Done(s1, Exc("Err:AttributeError")) /\ obs' = hook \o <<EvDev(m.obj, c, "nostatus", 0)>>
               ELSE /\ S' = Done(NewStatus(s1, m.a, d), Val("status"))
                    /\ obs' = hook \o <<EvDev(m.obj, c, "", s1.nextSid)>> \o StatEv(s1, d)
       [] c = "kickoff" ->
            \* RunEngine._kickoff 2132-2170: needs an open run (checked before the device is touched); the flyer is marked
            \* uncollected once its kickoff() has returned
            /\ d \in {"ok", "raise", "fail", "later", "nostatus"} /\ m.obj \in Flyers
            /\ IF ~open THEN d = "ok" /\ S' = Done(s0, IMS) /\ obs' = hook
               ELSE IF d = "raise" THEN S' = Done(s0, Exc("DevErr")) /\ obs' = hook \o <<EvDev(m.obj, c, "raise", 0)>>
               ELSE LET s1 == SetRun(s0, m.run, [r EXCEPT !.uncol = @ \cup {m.obj}]) IN
                    IF d = "nostatus" THEN S' = Done(s1, Exc("Err:AttributeError")) /\ obs' = hook \o <<EvDev(m.obj, c, "nostatus", 0)>>
                    ELSE /\ S' = Done(NewStatus(s1, m.a, d), Val("status"))
                         /\ obs' = hook \o <<EvDev(m.obj, c, "", s1.nextSid)>> \o StatEv(s1, d)
       [] c \in {"complete", "prepare"} ->
            /\ d \in {"ok", "raise", "fail", "later", "nostatus"} /\ m.obj \in Flyers
            /\ IF d = "raise" THEN S' = Done(s0, Exc("DevErr")) /\ obs' = hook \o <<EvDev(m.obj, c, "raise", 0)>>
               ELSE IF d = "nostatus" THEN S' = Done(s0, Exc("Err:AttributeError")) /\ obs' = hook \o <<EvDev(m.obj, c, "nostatus", 0)>>
               ELSE /\ S' = Done(NewStatus(s0, m.a, d), Val("status"))
                    /\ obs' = hook \o <<EvDev(m.obj, c, "", s0.nextSid)>> \o StatEv(s0, d)
       [] c = "collect" ->
            \* RunEngine._collect -> RunBundler.collect: the first collect in a run awaits asyncio.gather(describe_collect,
            \* describe_configuration, read_configuration): a real suspension point; the flyer stops being `uncollected` only
            \* after it (an interruption there leaves it to the backstop collection)
            /\ d \in {"ok", "raise"} /\ m.obj \in Flyers
            /\ IF ~open THEN d = "ok" /\ S' = Done(s0, IMS) /\ obs' = hook
               ELSE IF m.obj \notin r.ccache THEN
                    /\ d = "ok" /\ S' = Block(s0, "collect_cache", "", {}) /\ obs' = hook
               ELSE LET cc == CollectCore(r, m.obj, d = "raise") IN
                    /\ S' = Done(SetRun(s0, m.run, cc.r), IF d = "raise" THEN Exc("DevErr") ELSE Val("seq:" \o ToString(FlyN[m.obj])))
                    /\ obs' = hook \o cc.o
       [] c \in {"stage", "unstage"} ->
            /\ d \in {"ok", "raise"}
            /\ IF m.obj \notin Stageables THEN d = "ok" /\ S' = Done(s0, Val("seq:0")) /\ obs' = hook
               ELSE IF d = "raise" THEN S' = Done(s0, Exc("DevErr")) /\ obs' = hook \o <<EvDev(m.obj, c, "raise", 0)>>
               ELSE LET s1 == [s0 EXCEPT !.staged = IF c = "stage" THEN @ \cup {m.obj} ELSE @ \ {m.obj}] IN
                    S' = Done(ResetCkpt(s1), Val("seq:1")) /\ obs' = hook \o <<EvDev(m.obj, c, "", 0)>>
       [] c = "monitor" ->
            /\ d = "ok"
            /\ IF ~open \/ m.obj \in r.mons THEN S' = Done(s0, IMS) /\ obs' = hook
               ELSE IF m.obj \notin r.dcache THEN S' = Block(s0, "mon_cache", "", {}) /\ obs' = hook
               ELSE /\ S' = Done(ResetCkpt(SetRun(s0, m.run, MonApply(r, m))), Val(None))
                    /\ obs' = hook \o <<EvDoc("descriptor", MonName(m), "", 0, r.ord), EvDev(m.obj, "subscribe", "", 0)>>
       [] c = "unmonitor" ->
            /\ d = "ok"
            /\ IF ~open \/ m.obj \notin r.mons THEN S' = Done(s0, IMS) /\ obs' = hook
               ELSE /\ S' = Done(ResetCkpt(SetRun(s0, m.run, [r EXCEPT !.mons = @ \ {m.obj}, !.monsub = @ \ {m.obj}])), Val(None))
                    /\ obs' = hook \o <<EvDev(m.obj, "clear_sub", "", 0)>>
       [] c = "locate" ->
            /\ d = "ok" /\ S' = Done(s0, Val("dict:readback,setpoint")) /\ obs' = hook
       [] c = "stop" ->
            /\ d = "ok" /\ S' = Done(s0, Val(None)) /\ obs' = hook \o <<EvDev(m.obj, "stop", "", 0)>>
       [] c = "_start_suspender" ->
            \* 1255-1309: record interruption, stop motors, pause devices, rewind, push the helper plan
            /\ d = "ok"
            /\ IF ~AllIntrOK(s0) THEN S' = Done(s0, Exc("Err:KeyError")) /\ obs' = hook
               ELSE LET s1 == [s0 EXCEPT !.runs = [k \in RunKeys |-> [IntrBump(s0.runs)[k] EXCEPT !.monsub = {}]]]
                        L == OpsL(AllMons(s0), "clear_sub") \o OpsL(s0.moved \cap Motors, "stop") \o OpsL(s0.seen \cap Pausables, "pause")
                        ob == hook \o IntrEvents(OpenKeysOf(s0.runs), s0.runs)
                    IN IF OpsParks(L) THEN
                          \* parked inside an awaiting stop()/pause(): the rest of the command runs later (SuspRest)
                          /\ S' = [s1 EXCEPT !.pc = "aops", !.cont = "susp", !.pend = OpsLeft(L)]
                          /\ obs' = ob \o EvOps(OpsDoneNow(L))
                       ELSE /\ S' = SuspRest(s1) /\ obs' = ob \o EvOps(L)
       [] c = "_resume_from_suspender" ->
            \* RunEngine._resume 2418-2434: restore monitors (subscribes again), resume devices
            /\ d = "ok"
            /\ LET s1 == [s0 EXCEPT !.runs = [k \in RunKeys |-> [s0.runs[k] EXCEPT !.monsub = s0.runs[k].mons]]]
                   L == OpsL(AllMons(s0), "subscribe") \o OpsL(s0.seen \cap Pausables, "resume")
               IN IF OpsParks(L) THEN
                     /\ S' = [s1 EXCEPT !.pc = "aops", !.cont = "resume", !.pend = OpsLeft(L)]
                     /\ obs' = hook \o EvOps(OpsDoneNow(L))
                  ELSE /\ S' = Done(s1, Val(None)) /\ obs' = hook \o EvOps(L)
       [] OTHER ->
            \* unknown command: InvalidCommand is the response
            /\ d = "ok" /\ S' = Done(s0, Exc("InvalidCommand")) /\ obs' = hook

\* the blocking command finishes normally
CmdDone ==
  /\ S.pc = "cmd" /\ ~S.cancel
  /\ CASE S.cmd.kind = "sleep" -> S' = Done(S, Val(None)) /\ obs' = <<>>
       [] S.cmd.kind = "wait_for" -> S.cmd.a \in S.futs /\ S' = Done(S, Val("seq:1")) /\ obs' = <<>>
       [] S.cmd.kind = "wait" ->
            /\ GroupDone(S, S.cmd.sids) \/ GroupFailed(S, S.cmd.sids)
            /\ IF GroupDone(S, S.cmd.sids) THEN S' = Done(S, Val("bool:True"))
               ELSE \* first exception with others pending: WaitForTimeoutError; the statuses are put back
                    S' = Done(WithGroup(S, S.cmd.a, GroupOf(S, S.cmd.a) \cup S.cmd.sids), Exc("WaitTimeout"))
            /\ obs' = <<>>
       [] S.cmd.kind = "read_cache" ->
            \* the caches are filled; the rest of RunBundler.read runs (the run is still open and bundling: nothing else
            \* ran in between)
            LET m == S.cur
                r == S.runs[m.run]
                r1 == [r EXCEPT !.dcache = @ \cup {m.obj}]
            IN /\ obs' = <<>>
               /\ IF \E i \in 1..Len(r.objs) : DataKeys[r.objs[i]] \cap DataKeys[m.obj] # {}
                  THEN S' = Done(SetRun(S, m.run, r1), Exc("Err:ValueError"))
                  ELSE S' = Done(SetRun(S, m.run, [r1 EXCEPT !.objs = Append(@, m.obj)]), Val(ReadVal[m.obj]))
       [] S.cmd.kind = "mon_cache" ->
            LET m == S.cur
                r == S.runs[m.run]
                r1 == [MonApply(r, m) EXCEPT !.dcache = @ \cup {m.obj}]
            IN /\ S' = Done(ResetCkpt(SetRun(S, m.run, r1)), Val(None))
               /\ obs' = <<EvDoc("descriptor", MonName(m), "", 0, r.ord), EvDev(m.obj, "subscribe", "", 0)>>
       [] S.cmd.kind = "declare_cache" ->
            \* _prepare_stream: the stream is described now (again, if it already was), for exactly this object; a later save
            \* into it does not describe it again; the response is (descriptor, compose_event, objects)
            LET m == S.cur
                r == S.runs[m.run]
                sn == m.a
                r1 == [r EXCEPT !.dcache = @ \cup {m.obj}, !.descs = @ \cup {sn}, !.dobjs[sn] = {m.obj},
                                !.dord = IF sn \in r.descs THEN @ ELSE Append(@, sn),
                                !.ctr[sn] = IF @ = 0 THEN 1 ELSE @, !.copy[sn] = IF r.ctr[sn] = 0 THEN 1 ELSE @]
            IN /\ S' = Done(SetRun(S, m.run, r1), Val("seq:3"))
               /\ obs' = <<EvDoc("descriptor", sn, "", 0, r.ord)>>
       [] S.cmd.kind = "ckpt_sleep" ->
            \* deferred pause at a checkpoint: after the 0.5 s sleep, _request_pause_coro(defer=False) inline (2454-2455)
            IF S.st # "running" THEN S' = Done(S, Exc("TransitionError")) /\ obs' = <<>>
            ELSE IF AllIntrOK(S) THEN
                 /\ S' = Done([S EXCEPT !.deferred = FALSE, !.interrupted = TRUE, !.st = "pausing",
                                        !.runs = IntrBump(S.runs), !.cancel = TRUE], Val(None))
                 /\ obs' = <<EvState("running", "pausing")>> \o IntrEvents(OpenKeys, S.runs)
            ELSE /\ S' = Done([S EXCEPT !.deferred = FALSE, !.interrupted = TRUE, !.st = "pausing"], Exc("Err:KeyError"))
                 /\ obs' = <<EvState("running", "pausing")>>
       [] OTHER -> FALSE

\* the gather inside the first collect of a flyer in this run has finished: the rest of RunBundler.collect runs
CollectDone(d) ==
  /\ S.pc = "cmd" /\ ~S.cancel /\ S.cmd.kind = "collect_cache" /\ d \in {"ok", "raise"}
  /\ LET m == S.cur
         cc == CollectCore(S.runs[m.run], m.obj, d = "raise")
     IN /\ S' = Done(SetRun(S, m.run, cc.r), IF d = "raise" THEN Exc("DevErr") ELSE Val("seq:" \o ToString(FlyN[m.obj])))
        /\ obs' = cc.o

----------------------------------------------------------------------------
(* leaving the loop: 1739-1761 *)
Exit ==
  /\ S.pc = "exit"
  /\ LET e == S.exitExc IN
     CASE e = "StopIteration" -> S' = [S EXCEPT !.exitStatus = "success", !.pc = "tail"]
       [] e = "RequestStop" -> S' = [S EXCEPT !.exitStatus = "success", !.pc = "tail"]
       [] e \in {"FailedPause", "RequestAbort", "Cancelled", "PlanHalt"} -> S' = [S EXCEPT !.exitStatus = "abort", !.pc = "tail"]
       [] e = "GeneratorExit" -> S' = [S EXCEPT !.exitStatus = "fail", !.taskExc = "Err:ValueError", !.pc = "fin"]   \* (str(err) = "")
       \* exit_reason = str(err): the exceptions of this vocabulary all carry a text
       [] OTHER -> S' = [S EXCEPT !.exitStatus = "fail", !.taskExc = e, !.exitReason = "exc", !.pc = "fin"]
  /\ obs' = <<>>

\* the sleep(0) after the plan ended (P3): a pending cancel surfaces here and ends the task as cancelled
TailStep ==
  /\ S.pc = "tail"
  /\ S' = IF S.cancel THEN [S EXCEPT !.cancel = FALSE, !.taskExc = "Cancelled", !.pc = "fin"] ELSE [S EXCEPT !.pc = "fin"]
  /\ obs' = <<>>

\* finally: 1762-1803
\* (the stop documents of the runs the ENGINE closes carry `exit_reason or self._reason` -- their reason class rc travels in
\*  the event's stream slot; a plan's own close_run carries what the message says: nothing, in the programs)
RECURSIVE CloseAll(_, _, _, _)
CloseAll(ks, rs, status, rc) ==
  IF ks = {} THEN <<>>
  ELSE LET k == CHOOSE x \in ks : \A y \in ks : rs[x].ord <= rs[y].ord
       IN <<EvDoc("stop", rc, status, 0, rs[k].ord)>> \o NevSeq(Streams, rs[k].ctr, rs[k].ord) \o CloseAll(ks \ {k}, rs, status, rc)
RECURSIVE ClearMonsAll(_, _)
ClearMonsAll(ks, rs) ==
  IF ks = {} THEN <<>>
  ELSE LET k == CHOOSE x \in ks : \A y \in ks : rs[x].ord <= rs[y].ord
       IN DevOps(rs[k].mons, "clear_sub") \o ClearMonsAll(ks \ {k}, rs)
\* generators still suspended on the stack are closed; the environment generator logs it
\* cr: how the plan reacts to close() -- "closed", or "raise:Err:RuntimeError" when it yields again from a finally block
\* (the engine only prints a warning)
CloseGens(gs, cr) == IF \E i \in 1..Len(gs) : gs[i].k = "env" /\ ~gs[i].done /\ gs[i].pos > 0
                     THEN <<EvGen("close", "", cr)>> ELSE <<>>
CloseReacts == {"closed", "raise:Err:RuntimeError"}
\* the rest of the finally block once every moved motor has been stopped
FinRest(s) ==
  LET canIdle == "idle" \in Table[s.st]
      res == IF ~canIdle THEN "TransitionError"
             ELSE IF s.taskExc = "Cancelled" \/ s.stashed = "Cancelled" THEN "cancelled"
             ELSE IF s.taskExc # None THEN s.taskExc ELSE "ok"
  IN [s EXCEPT !.runs = [k \in RunKeys |-> ClosedRun], !.staged = {},
               !.st = IF canIdle THEN "idle" ELSE @,
               !.taskRes = res, !.pc = "done", !.blocking = TRUE, !.pend = <<>>, !.cont = "", !.finq = <<>>,
               !.gens = [i \in 1..Len(s.gens) |-> [s.gens[i] EXCEPT !.done = TRUE]]]
FinRestObs2(s, cr) ==
  DevOps(s.staged, "unstage")
  \o CloseAll(OpenKeysOf(s.runs), s.runs, s.exitStatus, IF s.exitReason # "" THEN s.exitReason ELSE s.reason) \o CloseGens(s.gens, cr)
  \o (IF "idle" \in Table[s.st] THEN <<EvState(s.st, "idle")>> ELSE <<>>)
FinRestObs(s, cr) == ClearMonsAll(OpenKeysOf(s.runs), s.runs) \o FinRestObs2(s, cr)

\* flyers kicked off and not collected: per open run (in _run_bundlers order) the monitors are cleared, then every uncollected
\* flyer is collected (`backstop_collect`, 1773-1779; DevOrder order here, a python set in the code; its errors are swallowed).
\* A flyer this run has not cached yet makes _ensure_cached await a gather: a further parking place INSIDE the finally block
\* (pc = "bpark").
RECURSIVE BackItems(_, _)
BackItems(ks, rs) ==
  IF ks = {} THEN <<>>
  ELSE LET k == CHOOSE x \in ks : \A y \in ks : rs[x].ord <= rs[y].ord
           fl == OpsL(rs[k].uncol, "collect")
       IN <<<<k, "mons">>>> \o [i \in 1..Len(fl) |-> <<k, fl[i][1]>>] \o BackItems(ks \ {k}, rs)
NeedBackstop(s) == \E k \in OpenKeysOf(s.runs) : s.runs[k].uncol # {}
RECURSIVE RunBack(_, _, _)
RunBack(s, q, bad) ==
  IF q = <<>> THEN [s |-> s, o |-> <<>>, rest |-> <<>>, parked |-> FALSE]
  ELSE LET k == Head(q)[1]
           it == Head(q)[2]
           r == s.runs[k]
       IN IF it = "mons" THEN LET n == RunBack(s, Tail(q), bad) IN [n EXCEPT !.o = DevOps(r.mons, "clear_sub") \o @]
          ELSE IF it \notin r.ccache
               THEN [s |-> [s EXCEPT !.runs[k].ccache = @ \cup {it}], o |-> <<>>, rest |-> q, parked |-> TRUE]
          ELSE LET cc == CollectCore(r, it, it \in bad)
                   n == RunBack([s EXCEPT !.runs[k] = cc.r], Tail(q), bad)
               IN [n EXCEPT !.o = cc.o \o @]
\* the finally block after the motors have been stopped (pre: what the step has emitted so far)
FinTail(s, pre, bad, cr) ==
  IF ~NeedBackstop(s) THEN S' = FinRest(s) /\ obs' = pre \o FinRestObs(s, cr)
  ELSE LET n == RunBack(s, BackItems(OpenKeysOf(s.runs), s.runs), bad) IN
       IF n.parked THEN /\ S' = [n.s EXCEPT !.pc = "bpark", !.finq = n.rest, !.pend = <<>>, !.cont = ""]
                        /\ obs' = pre \o n.o
       ELSE S' = FinRest(n.s) /\ obs' = pre \o n.o \o FinRestObs2(n.s, cr)
Finally(cr, bad) ==
  /\ S.pc = "fin" /\ cr \in CloseReacts /\ bad \subseteq Flyers
  /\ LET L == OpsL(S.moved \cap Motors, "stop") IN
     IF OpsParks(L) THEN
        \* `await self._stop_movable_objects()` really suspends inside the finally block
        /\ S' = [S EXCEPT !.pc = "aops", !.cont = "fin", !.pend = OpsLeft(L)]
        /\ obs' = EvOps(OpsDoneNow(L))
     ELSE FinTail(S, EvOps(L), bad, cr)
\* the gather inside a backstop collect has finished: the clean-up goes on
Backstop(cr, bad) ==
  /\ S.pc = "bpark" /\ ~S.cancel /\ cr \in CloseReacts /\ bad \subseteq Flyers
  /\ LET n == RunBack(S, S.finq, bad) IN
     IF n.parked THEN S' = [n.s EXCEPT !.finq = n.rest] /\ obs' = n.o
     ELSE S' = FinRest(n.s) /\ obs' = n.o \o FinRestObs2(n.s, cr)
\* a cancellation delivered there: backstop_collect only swallows Exception -- the CancelledError escapes from the finally block
\* (as from an awaiting stop(), AOpsCancel): runs stay open, devices staged, the state is not reset
BackCancel ==
  /\ S.pc = "bpark" /\ S.cancel
  /\ S' = [S EXCEPT !.cancel = FALSE, !.finq = <<>>, !.taskRes = "cancelled", !.pc = "done", !.blocking = TRUE]
  /\ obs' = <<>>

----------------------------------------------------------------------------
(* parked inside an awaiting device call (pc = "aops") *)
\* the awaited call returns: the pending operations go on, up to the next awaiting one or to the end of the sequence
AOpsStep(cr, bad) ==
  /\ S.pc = "aops" /\ ~S.cancel /\ cr \in CloseReacts /\ bad \subseteq Flyers
  /\ LET L == S.pend IN
     IF OpsParks(L) THEN /\ S' = [S EXCEPT !.pend = OpsLeft(L)] /\ obs' = EvOps(OpsDoneNow(L))
     ELSE CASE S.cont = "pausing" ->
                 \* `self._state = "paused"` is a checked transition: only pausing -> paused is legal
                 IF "paused" \in Table[S.st]
                 THEN /\ S' = [(IF NoReplay(S) THEN ResetCkpt(S) ELSE S) EXCEPT !.st = "paused", !.pc = "paused", !.blocking = TRUE, !.pend = <<>>, !.cont = ""]
                      /\ obs' = EvOps(L) \o <<EvState(S.st, "paused")>>
                 ELSE /\ S' = ExitWith([S EXCEPT !.pend = <<>>, !.cont = ""], "TransitionError") /\ obs' = EvOps(L)
            [] S.cont = "susp" -> /\ S' = SuspRest([S EXCEPT !.pend = <<>>, !.cont = ""]) /\ obs' = EvOps(L)
            [] S.cont = "resume" -> /\ S' = Done([S EXCEPT !.pend = <<>>, !.cont = ""], Val(None)) /\ obs' = EvOps(L)
            [] S.cont = "fin" -> FinTail(S, EvOps(L), bad, cr)
\* a cancellation is delivered inside the awaited device call
AOpsCancel ==
  /\ S.pc = "aops" /\ S.cancel
  /\ LET s0 == [S EXCEPT !.cancel = FALSE, !.pend = <<>>, !.cont = ""] IN
     CASE S.cont = "pausing" -> S' = ExitWith(s0, "Cancelled")      \* outside the inner try: leaves the loop
       [] S.cont \in {"susp", "resume"} -> S' = CancelHandler([s0 EXCEPT !.newResp = Val(None)], FALSE)   \* inside a command
       [] S.cont = "fin" ->
            \* CancelledError escapes from the finally block: the rest of the clean-up never runs -- runs stay open,
            \* devices stay staged, the state is not reset; the task ends cancelled (its done-callback releases the caller)
            S' = [s0 EXCEPT !.taskRes = "cancelled", !.pc = "done", !.blocking = TRUE]
  /\ obs' = <<>>

=============================================================================
