"""C33 -- 0MQ publishing delivers documents intact, in order, filtered by prefix; malformed frames deliver nothing.

spec/zmq/ZmqChannel.tla models publishers with prefixes, frames prefix.name.payload on a lossless FIFO channel, an
adversary inserting malformed frames (no separators, undecodable name, unknown document name, bad payload) and a
dispatcher with a prefix filter and a strict flag.  TLC checks the statement's invariants over all frame sequences up
to the bound.  Every terminal scenario of the replay configurations is executed with the REAL Publisher and
RemoteDispatcher (start() / _poll under an asyncio loop driven by the harness) over an in-memory stand-in for zmq /
zmq.asyncio (harness/zmq_fake.py) passed through the documented constructor parameters, with seeded random prefixes
(arbitrary bytes without spaces) and documents, and compared frame by frame; long random executions are validated by
TLC (ZmqTrace, batch scheme).
"""
import asyncio
import contextlib
import io
import json
import logging
import pickle
import random
import re

from harness.tlc import run_tlc, write_cfg, SPEC
from harness.tracecheck import validate_traces

SD = SPEC / "zmq"
DESIGN_REF = "DESIGN.md section 7 (C33)"
# short TLC runs are dominated by JVM warm-up: C1-only JIT and two GC threads halve their cost (not used for the big thorough runs)
FAST = ["-XX:TieredStopAtLevel=1", "-XX:ParallelGCThreads=2"]
FAST_ENV = {"JDK_JAVA_OPTIONS": " ".join(FAST)}
INVS = ["TypeOK", "C33_OnlyOwnInOrder", "C33_NothingLost", "C33_MalformedDeliversNothing", "C33_StrictRaisesOnMalformed",
        "C33_NonStrictNeverStops"]
ALLBAD = {"nosep", "badname", "unkname", "badpayload"}
KF_SIG = "nonstrict-poll-dies:unknown-document-name"
GOOD_NAMES = ["start", "descriptor", "event", "stop", "datum", "resource", "event_page", "datum_page",
              "stream_resource", "stream_datum", "bulk_datum", "bulk_events"]


# ---------------------------------------------------------------------------------------------------------------
# concrete bytes / documents for the abstract scenario
# ---------------------------------------------------------------------------------------------------------------

def deep_eq(a, b):
    import numpy as np
    if isinstance(a, np.ndarray) or isinstance(b, np.ndarray):
        return isinstance(a, np.ndarray) and isinstance(b, np.ndarray) and a.dtype == b.dtype and a.shape == b.shape \
            and bool(np.array_equal(a, b))
    if type(a) is not type(b):
        return False
    if isinstance(a, dict):
        return list(a.keys()) == list(b.keys()) and all(deep_eq(a[k], b[k]) for k in a)
    if isinstance(a, (list, tuple)):
        return len(a) == len(b) and all(deep_eq(x, y) for x, y in zip(a, b))
    if isinstance(a, float):
        return a == b or (a != a and b != b)
    return a == b


def random_value(rng, depth, jsonable):
    import numpy as np
    r = rng.random()
    if depth <= 0 or r < 0.55:
        k = rng.randrange(8 if jsonable else 11)
        if k == 0:
            return rng.randint(-10**9, 10**9)
        if k == 1:
            return rng.choice([0.0, -1.5, 3.25e10, 1e-300, 2.0**-20])
        if k == 2:
            return "".join(rng.choice(" ab\n\t\"\\é漢 {}[],:") for _ in range(rng.randint(0, 12)))
        if k == 3:
            return None
        if k == 4:
            return rng.random() < 0.5
        if k == 5:
            return "two  spaces and a trailing one "
        if k == 6:
            return rng.randint(0, 5)
        if k == 7:
            return ""
        if k == 8:
            return bytes(rng.randrange(256) for _ in range(rng.randint(0, 8))) + b" x "
        if k == 9:
            return np.arange(rng.randint(0, 6), dtype=rng.choice(["int64", "float32", "uint8"])).reshape(-1)
        return (1, "t", None)
    if r < 0.8:
        return {("k%d" % i if rng.random() < 0.8 else "key with space %d" % i): random_value(rng, depth - 1, jsonable)
                for i in range(rng.randint(0, 4))}
    return [random_value(rng, depth - 1, jsonable) for _ in range(rng.randint(0, 4))]


def random_doc(rng, tok, jsonable=False):
    d = {"uid": "%032x" % rng.getrandbits(128), "verif_tok": tok, "time": rng.random() * 1e9}
    for i in range(rng.randint(0, 4)):
        d["f%d" % i] = random_value(rng, 3, jsonable)
    return d


PREFIX_POOL = [b"a", b"ab", b"b", b"a\n", b"\x00", b"\xff\xfe", b"pre-fix", b"\tb", b"abc" * 20, b"\xc3\x28", b"1", b"a\x00b", b"=:;"]


def concrete_prefixes(rng, idxs):
    """abstract prefix index -> bytes (0 = empty); distinct, no spaces, arbitrary bytes otherwise"""
    m = {0: b""}
    pool = list(PREFIX_POOL)
    rng.shuffle(pool)
    for i in sorted(set(idxs) - {0}):
        if rng.random() < 0.3:
            p = bytes(b for b in (rng.randrange(256) for _ in range(rng.randint(1, 6))) if b != 0x20) or b"z"
            while p in m.values():
                p += b"z"
        else:
            p = pool.pop()
            while p in m.values():          # (a random prefix drawn earlier may coincide with a pool entry)
                p = pool.pop()
        m[i] = p
    return m


SERIALIZERS = {
    "pickle": (pickle.dumps, pickle.loads),
    "json": (lambda d: json.dumps(d).encode(), lambda b: json.loads(b)),
}


def malformed_bytes(rng, kind, pfx, ser, deser, payload_doc):
    good_payload = ser(payload_doc)
    if kind == "nosep":
        c = [b"", b"nospaces", pfx + b" onlyone", b"\xff\xfe", pfx + b" event", pfx, b"\n\t", good_payload.replace(b" ", b"_")]
        f = rng.choice(c)
        assert f.count(b" ") < 2
        return f
    if kind == "badname":
        return pfx + b" " + rng.choice([b"\xff", b"\xc3\x28", b"ev\xe9nt", b"start\x80"]) + b" " + good_payload
    if kind == "unkname":
        return pfx + b" " + rng.choice([b"bogus", b"Start", b"", b"all", b"events", b"EVENT", b"start\n"]) + b" " + good_payload
    if kind == "badpayload":
        for _ in range(20):
            junk = rng.choice([b"", b"not a pickle", b"\x80\x04\x95garbage", good_payload[:-3], good_payload[: len(good_payload) // 2], b"{", b"\xff"])
            try:
                deser(junk)
            except Exception:   # noqa
                return pfx + b" " + rng.choice(GOOD_NAMES).encode() + b" " + junk
        raise RuntimeError("no undeserializable payload found")
    raise ValueError(kind)


# ---------------------------------------------------------------------------------------------------------------
# executing a scenario on the real Publisher / RemoteDispatcher
# ---------------------------------------------------------------------------------------------------------------

def execute(rng, dpfx, strict, frames, burst=False, serializer="pickle"):
    """frames: list of abstract frames {kind, pfx, name, tok}.  Returns (log, how): log = one entry per frame the
    dispatcher got to handle, {f, dl: [[name, tok]], stopped}; how = how start() ended."""
    from bluesky.callbacks.zmq import Publisher, RemoteDispatcher
    from harness.zmq_fake import Hub
    ser, deser = SERIALIZERS[serializer]
    pm = concrete_prefixes(rng, [dpfx] + [f["pfx"] for f in frames])
    hub = Hub(5567, 5568)
    loop = asyncio.new_event_loop()
    kw = {} if serializer == "pickle" else {"deserializer": deser}
    d = RemoteDispatcher(("localhost", hub.out_port), prefix=pm[dpfx], loop=loop, zmq=hub.zmq, zmq_asyncio=hub.zmq_asyncio,
                         strict=strict, **kw)
    docs = {}
    st = {"i": -1, "sent": 0}
    got = []

    def cb(name, doc):
        tok = doc.get("verif_tok", -2) if isinstance(doc, dict) else -2
        if tok not in docs or not deep_eq(doc, docs[tok]):
            tok = -1                    # not (equal to) a document that was published
        got.append((st["i"], [name, tok]))

    d.subscribe(cb)
    pubs = {}
    raw = hub.raw()

    def send(f):
        doc = random_doc(rng, f["tok"], jsonable=serializer != "pickle")
        docs[f["tok"]] = doc
        if f["kind"] == "good":
            p = f["pfx"]
            if p not in pubs:
                kw2 = {} if serializer == "pickle" else {"serializer": ser}
                pubs[p] = Publisher("localhost:%d" % hub.in_port, prefix=pm[p], zmq=hub.zmq, **kw2)
            import copy
            keep = copy.deepcopy(doc)
            pubs[p](f["name"], doc)
            if not deep_eq(doc, keep):
                docs[f["tok"]] = {"mutated by the publisher": True}
        else:
            raw.send(malformed_bytes(rng, f["kind"], pm[f["pfx"]], ser, deser, doc))

    async def quiesce(sub):
        for _ in range(100):
            await asyncio.sleep(0)
            if sub.idle:
                break
        else:
            return False
        await asyncio.sleep(0)
        await asyncio.sleep(0)
        return True

    async def driver():
        sub = hub.subs[0]
        await quiesce(sub)
        if burst:
            for i, f in enumerate(frames):
                st["i"] = i
                send(f)
                st["sent"] = i + 1
            await quiesce(sub)
        else:
            for i, f in enumerate(frames):
                st["i"] = i
                send(f)
                st["sent"] = i + 1
                if not await quiesce(sub):
                    return
        hub.terminate()

    task = loop.create_task(driver())
    try:
        with contextlib.redirect_stdout(io.StringIO()):
            d.start()
        how = "returned"
    except asyncio.CancelledError:
        how = ""            # ended by the harness (transport closed), not by the dispatcher
    except Exception as ex:     # noqa
        how = "raise:" + type(ex).__name__
    del task
    nhandled = hub.all_subs[0].nrecv        # frames the dispatcher's socket handed to _poll
    log = []
    for i in range(nhandled):
        dl = [g[1] for g in got if g[0] == i] if not burst else None
        log.append({"f": frames[i], "dl": dl, "stopped": bool(how) and i == nhandled - 1})
    if burst:
        # attribution by time is impossible in a burst: attribute each delivery to the frame with its token
        bytok = {}
        for _, (name, tok) in got:
            bytok.setdefault(tok, []).append([name, tok])
        for e in log:
            e["dl"] = bytok.pop(e["f"]["tok"], [])
        for tok, lst in bytok.items():      # deliveries that belong to no handled frame
            log.append({"f": {"kind": "none", "pfx": 0, "name": "", "tok": tok}, "dl": lst, "stopped": False})
        log_order = [x[1] for x in got]
    else:
        log_order = [x[1] for x in got]
    for p in pubs.values():
        p.close()
    return log, how, log_order


def frames_key(dpfx, strict, frames):
    return (dpfx, bool(strict), tuple((f["kind"], f["pfx"], f["name"]) for f in frames))


def gen_histories(ctx, const, tag):
    """terminal histories of the model (_poll as found and repaired, one TLC run); the run checks every invariant too"""
    out = {}
    cfgp = write_cfg(ctx.out / f"replay_{tag}.cfg", dict(const, Repaireds={False, True}), invariants=INVS, constraints=["Dump"])
    res = run_tlc("ZmqChannel", cfgp, spec_dir=SD, tag="C33r", timeout=3000, java_opts=FAST if ctx.quick else None)
    ctx.add_tlc(res, f"ZmqChannel exhaustive + replay generation {tag}")
    if not res.ok:
        st = res.trace[-1][1] if res.trace else {}
        ctx.violation(f"spec:{res.violated}:{tag}", f"ZmqChannel.tla {res.kind} {res.violated} violated: {st}", {"state": str(st)})
        return None
    for m in re.finditer(r'<<"HIST", "((?:[^"\\]|\\.)*)">>', res.stdout):
        h = json.loads(json.loads('"' + m.group(1) + '"'))
        frames = [e["f"] for e in h["log"]]
        key = frames_key(h["dpfx"], h["strict"], frames)
        ent = out.setdefault(key, {"dpfx": h["dpfx"], "strict": h["strict"], "frames": frames, "allowed": []})
        if not any(a["log"] == h["log"] and a["repaired"] == h["repaired"] for a in ent["allowed"]):
            ent["allowed"].append(h)
    return out


def random_scenario(rng, n):
    npfx = rng.randint(1, 4)
    pf = list(range(0, npfx + 1)) if rng.random() < 0.5 else list(range(1, npfx + 1))
    dpfx = rng.choice(pf + [0])
    strict = rng.random() < 0.35
    pbad = rng.choice([0.0, 0.1, 0.3])
    frames = []
    for t in range(1, n + 1):
        if rng.random() < pbad:
            k = rng.choice(sorted(ALLBAD))
            frames.append({"kind": k, "pfx": 0 if k == "nosep" else rng.choice(pf), "name": "", "tok": t})
        else:
            frames.append({"kind": "good", "pfx": rng.choice(pf), "name": rng.choice(GOOD_NAMES), "tok": t})
    return dpfx, strict, frames


def to_trace(dpfx, strict, log):
    evs = []
    for e in log:
        evs.append({"op": "send", "f": e["f"], "dl": [], "stopped": False})
        evs.append({"op": "recv", "f": e["f"], "dl": e["dl"], "stopped": e["stopped"]})
    return {"dpfx": dpfx, "strict": strict, "ev": evs}


def run(ctx):
    logging.getLogger("asyncio").setLevel(logging.CRITICAL + 10)
    full = {"Prefixes": {0, 1, 2}, "BadPrefixes": {0, 1, 2}, "DPrefixes": {0, 1}, "GoodNames": {"start", "event"}, "BadKinds": ALLBAD}
    slim = {"Prefixes": {1, 2}, "BadPrefixes": {1}, "DPrefixes": {0, 1}, "GoodNames": {"event"}, "BadKinds": ALLBAD}
    # 1. exhaustive model checking (_poll as found with the finding exempted; thorough: also repaired, where the exemption
    #    is vacuous).  The replay configurations of step 2 are checked against all invariants for both as well.
    if ctx.quick:
        runs = [("slim<=5", dict(slim, MaxFrames=5, MaxInFlight=2, Repaireds={False}))]
    else:
        runs = [("full<=4", dict(full, MaxFrames=4, MaxInFlight=2, Repaireds={False})),
                ("slim<=6", dict(slim, MaxFrames=6, MaxInFlight=2, Repaireds={False})),
                ("slim<=5 any interleaving", dict(slim, MaxFrames=5, MaxInFlight=5, Repaireds={False}))]
    for label, const in runs:
        cfgp = write_cfg(ctx.out / "exh.cfg", const, invariants=INVS)
        res = run_tlc("ZmqChannel", cfgp, spec_dir=SD, tag="C33", timeout=3000, java_opts=FAST if ctx.quick else None)
        ctx.add_tlc(res, f"ZmqChannel exhaustive {label}")
        if not res.ok:
            st = res.trace[-1][1] if res.trace else {}
            ctx.violation(f"spec:{res.violated}:{label}", f"ZmqChannel.tla {res.kind} {res.violated} violated: {st}", {"state": str(st)})
            return
    ctx.cov["exhaustive"] = True

    # 2. replay of every terminal scenario on the real Publisher / RemoteDispatcher
    ctx.rule = ("scenario = (dispatcher prefix, strict, sequence of frames (kind, publisher prefix, name)); every terminal scenario of "
                "the replay configurations (TLC) is executed on the real Publisher/RemoteDispatcher over the in-memory zmq stand-in, "
                "frame by frame and as one burst, with seeded random byte prefixes and documents; per-frame deliveries (name, "
                "identity of the equal published document) and whether start() raised are compared; non-trivial = >= 2 frames with a "
                "malformed or foreign-prefix frame; distinct by scenario; plus long random executions validated by TLC (ZmqTrace)")
    rng = random.Random(ctx.seed)
    medium = {"Prefixes": {0, 1, 2}, "BadPrefixes": {1, 2}, "DPrefixes": {0, 1}, "GoodNames": {"event"}, "BadKinds": ALLBAD}
    if ctx.quick:
        doms = [("medium3", dict(medium, MaxFrames=3, MaxInFlight=1))]
    else:
        doms = [("full3", dict(full, MaxFrames=3, MaxInFlight=1)), ("slim5", dict(slim, MaxFrames=5, MaxInFlight=1))]
    kf_seen = 0
    for tag, const in doms:
        hs = gen_histories(ctx, const, tag)
        if hs is None:
            return
        if not any(a["kf"] for sc in hs.values() for a in sc["allowed"]):
            ctx.machinery("KF_C33_1 is not reachable in the as-found model")
        if not hs:
            ctx.machinery("no histories produced by the replay configuration")
        for key, sc in hs.items():
            frames = sc["frames"]
            nontriv = len(frames) >= 2 and any(f["kind"] != "good" or (sc["dpfx"] != 0 and f["pfx"] != sc["dpfx"]) for f in frames)
            for burst in (False, True):
                ctx.case(key + (burst,), nontriv)
                try:
                    log, how, order = execute(rng, sc["dpfx"], sc["strict"], frames, burst=burst, serializer=rng.choice(["pickle", "pickle", "json"]))
                except Exception as ex:   # noqa
                    ctx.violation(f"replay-exc:{type(ex).__name__}:{key}", f"scenario {key} raised {ex!r} in the harness", {"scenario": sc})
                    continue
                ok = None
                # allowed outcomes: the model's histories for these frames, or for a prefix of them ending with start() raising
                cands = list(sc["allowed"])
                for k in range(1, len(frames)):
                    pk = (key[0], key[1], key[2][:k])
                    cands += [a for a in hs.get(pk, {}).get("allowed", []) if a["log"] and a["log"][-1]["stopped"]]
                for a in cands:
                    exp = a["log"]
                    exp_order = [p for e in exp for p in e["dl"]]
                    if log == exp and order == exp_order:
                        ok = a
                        if not (a["kf"] and not a["repaired"]):
                            break
                if ok is None:
                    exp = sc["allowed"][0]["log"]
                    k = next((i for i, (x, y) in enumerate(zip(exp, log)) if x != y), min(len(exp), len(log)))
                    e1 = exp[k] if k < len(exp) else None
                    g1 = log[k] if k < len(log) else None
                    fk = (e1 or g1)["f"]["kind"] if (e1 or g1) else "order"      # same per-frame deliveries, different order
                    ctx.violation(f"replay:{fk}:{'burst' if burst else 'step'}:{key}",
                                  f"scenario dpfx={sc['dpfx']} strict={sc['strict']} frames={[(f['kind'], f['pfx'], f['name']) for f in frames]}: "
                                  f"at frame {k} expected {e1} but the dispatcher gave {g1} (start() ended {how!r}; delivery order {order})",
                                  {"scenario": sc, "observed": log, "how": how, "burst": burst})
                elif ok["kf"] and not ok["repaired"]:
                    kf_seen += 1
                    ctx.violation(f"{KF_SIG}:replay:{how}:{key}",
                                  f"not strict, frame with an unknown document name and matching prefix: start() ended with {how} instead of "
                                  f"dropping the frame; scenario {key}", {"scenario": sc, "observed": log, "how": how})
            if nontriv:
                ctx.sample({"dpfx": sc["dpfx"], "strict": sc["strict"], "frames": [(f["kind"], f["pfx"], f["name"]) for f in frames],
                            "log": [(e["f"]["kind"], e["dl"], e["stopped"]) for e in sc["allowed"][0]["log"]]})

    # 3. long random executions validated by TLC
    traces, meta = [], []
    for _ in range(150 if ctx.quick else 3000):
        dpfx, strict, frames = random_scenario(rng, rng.randint(3, 12 if ctx.quick else 40))
        serializer = rng.choice(["pickle", "pickle", "json"])
        log, how, order = execute(rng, dpfx, strict, frames, burst=False, serializer=serializer)
        traces.append(to_trace(dpfx, strict, log))
        meta.append((dpfx, strict, frames, how, serializer))
        ctx.case(frames_key(dpfx, strict, frames), any(f["kind"] != "good" for f in frames) or dpfx != 0)
    v = validate_traces("ZmqTrace", "ZmqTrace.cfg", traces, SD, ctx.out, tag="C33t", timeout=3000, env=FAST_ENV)
    ctx.add_tlc(v.res, "ZmqTrace")
    ctx.traces(len(traces) - len(v.rejected) - (1 if v.invariant else 0))
    for idx, upto in v.rejected.items():
        t = traces[idx]
        e = t["ev"][upto] if upto < len(t["ev"]) else None
        fk = e["f"]["kind"] if e else "end"
        ctx.violation(f"trace-rejected:{fk}:dpfx={t['dpfx']}:strict={t['strict']}:{e}",
                      f"execution rejected by ZmqTrace at event {upto}: {e}; dispatcher prefix {t['dpfx']} strict {t['strict']}; start() ended {meta[idx][3]!r}",
                      {"trace": t, "accepted_prefix": upto, "serializer": meta[idx][4]})
    if v.invariant:
        t = traces[v.inv_trace_index] if v.inv_trace_index is not None else None
        ctx.violation(f"trace-invariant:{v.invariant}:{(t or {}).get('dpfx')}:{(t or {}).get('strict')}",
                      f"invariant {v.invariant} violated on an execution: {t}", {"trace": t})
    for tid in sorted({int(m.group(1)) for m in re.finditer(r'<<"KF1", (\d+)>>', v.res.stdout)}):
        kf_seen += 1
        ctx.violation(f"{KF_SIG}:trace:{meta[tid - 1][3]}:{tid}",
                      f"not strict, unknown document name with matching prefix: start() ended with {meta[tid - 1][3]}; trace {traces[tid - 1]}",
                      {"trace": traces[tid - 1]})
    ctx.note(f"finding KF-C33-1 shown by {kf_seen} executions")
    ctx.assumptions += [
        "the transport is a lossless FIFO (in-memory stand-in for zmq / zmq.asyncio and the forwarder proxy; real 0MQ PUB/SUB may drop "
        "frames of slow joiners or above the high-water mark -- outside the property)",
        "pickle / json round-trip fidelity is trusted; 'equal content' is deep equality (type, order of keys, numpy dtype/shape/values)",
        "one RemoteDispatcher per execution, started with start(); the harness ends it by cancelling the pending recv()",
        "strict mode: any exception out of start() counts as 'raise' (the class is not part of the statement)"]
