CONSTANTS
  Kinds = {"run", "stage", "subs", "suspend", "lazy_stage", "monitor_during", "fly_during"}
  MaxOps = 7
  PMsgs = 3
  Thrown = {"Err", "Stop", "Abort"}
  PRaise = {"ErrI"}
  CatchThrow = TRUE
  MisbehaveClose = FALSE
  AsCoded = TRUE
  Forests <- FShared
  DevLists <- ListsCurated
  Styles = {"self", "status", "tree"}
  PosKinds = {"locate"}
  Positions = {0}
  Offsets = {1}
SPECIFICATION Spec
VIEW mcview
INVARIANT TypeOK
INVARIANT C23_RunClosedOnce
INVARIANT C23_RunOutcome
INVARIANT C23_UnstageReverse
INVARIANT C23_StageOncePerTree
INVARIANT C23_SubsRemoved
INVARIANT C23_SuspendersRemoved
INVARIANT C23_RemoveOnlyAtEnd
INVARIANT C23_UndoneBeforeClose
INVARIANT C23_NoCleanupOnClose
