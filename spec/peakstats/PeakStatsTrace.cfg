SPECIFICATION TraceSpec
INVARIANT T_StrictlyMonotonic
INVARIANT T_MaxIsArgmax
INVARIANT T_MinIsArgmin
INVARIANT T_ComInRange
INVARIANT T_CenInRange
INVARIANT T_CrossingsStraddle
INVARIANT T_FwhmOutermost
INVARIANT T_CenIffCrossings
POSTCONDITION AllSeen
