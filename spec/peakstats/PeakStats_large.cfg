CONSTANTS
  MinN = 1
  MaxN = 5
  Gaps = {1, 2}
  X0s = {1}
  YMax = 3
  Edges = {0, 1, 2}
SPECIFICATION Spec
INVARIANT StrictlyMonotonic
INVARIANT MaxIsArgmax
INVARIANT MinIsArgmin
INVARIANT ComInRange
INVARIANT CenInRange
INVARIANT CrossingsStraddle
INVARIANT CrossingsComplete
INVARIANT FwhmOutermost
POSTCONDITION DumpCases
