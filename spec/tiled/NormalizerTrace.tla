--------------------------- MODULE NormalizerTrace ---------------------------
(* Batch validation of RunNormalizer executions against Normalizer.tla.              *)
(* TRACE_FILE: ndjson, one trace per line; one event per input document:              *)
(*   op, the abstract content of the document (d, s, k, id, r, frame, kw, hdf5, val,  *)
(*   refs, a, b, sa, sb), `out` = the documents the normalizer emitted during that     *)
(*   call (abstracted the same way, `ok` = accepted by the event_model schema          *)
(*   validator in the recorder), `inp` = every tracked input document whose deep        *)
(*   snapshot now differs from the snapshot taken when it was handed over, `other` =    *)
(*   some other input document (start, descriptor, event, ...) changed; `chk` = FALSE    *)
(*   for all but the last document unpacked from a page (inputs observed after the call). *)
(* Each event must be explained by the action of that document kind -- as coded or     *)
(* repaired -- with exactly the emitted documents and exactly the observed input        *)
(* contents.  All invariants are evaluated in every state of every accepted trace.      *)
EXTENDS Normalizer, IOUtils

Traces == ndJsonDeserialize(IOEnv.TRACE_FILE)

VARIABLES tid, l
tvars == <<vars, tid, l>>

KwSet(q) == {<<q[i][1], q[i][2]>> : i \in 1..Len(q)}
NormOut(q) == [i \in 1..Len(q) |-> [q[i] EXCEPT !.kw = KwSet(q[i].kw)]]
BothModes == {"asfound", "repaired"}

TraceInit == /\ Init0
             /\ conf = [nev |-> 0]
             /\ tid \in 1..Len(Traces)
             /\ l = 1
             /\ TLCSet(tid, 1)

Ev == Traces[tid][l]

\* references of this event for which no stream datum was emitted during the call (postponed or datum missing)
Deferred == {Ev.refs[i].id : i \in 1..Len(Ev.refs)} \ {Ev.out[j].id : j \in {j \in 1..Len(Ev.out) : Ev.out[j].t = "stream_datum"}}

\* datum documents whose datum_kwargs were found edited after this call (for the documents unpacked from a page: after
\* the whole page): their cached copies share the nested dict with the caller
Aliased == {Ev.inp[i].n : i \in {i \in 1..Len(Ev.inp) : Ev.inp[i].t = "datum"}}

Action ==
    \/ Ev.op = "start" /\ DoStart
    \/ Ev.op = "descriptor" /\ DoDescriptor(Ev.d) /\ phase' = "open"
    \/ Ev.op = "resource" /\ UNCHANGED phase /\ \E mm \in BothModes : DoResource(Ev.r, KwSet(Ev.kw), Ev.hdf5, mm)
    \/ Ev.op = "datum" /\ UNCHANGED phase /\ DoDatum(Ev.id, Ev.r, Ev.frame, KwSet(Ev.kw))
    \/ Ev.op = "event" /\ UNCHANGED phase /\ \E fm \in BothModes : DoEvent(Ev.d, Ev.s, Ev.val, Ev.refs, fm, Deferred, Aliased)
    \/ Ev.op = "stop" /\ \E fm \in BothModes : DoStop(fm, Aliased)
    \/ Ev.op = "stream_resource" /\ UNCHANGED <<phase, sres>> /\ \E mm \in BothModes : DoStreamResource(Ev.r, Ev.k, KwSet(Ev.kw), Ev.hdf5, mm)
    \/ Ev.op = "stream_datum" /\ UNCHANGED phase /\ DoStreamDatum(Ev.id, Ev.r, Ev.k, Ev.d, Ev.a, Ev.b, Ev.sa, Ev.sb)

\* the observed contents of the caller's documents are the specified ones
Observed(x) == LET m == {i \in 1..Len(Ev.inp) : Ev.inp[i].t = x.t /\ Ev.inp[i].n = x.n}
               IN IF m = {} THEN orig'[x]
                  ELSE LET i == CHOOSE i \in m : TRUE IN Content(Ev.inp[i].frame, KwSet(Ev.inp[i].kw))
InputsAsObserved ==
    /\ ~Ev.other
    /\ \A i \in 1..Len(Ev.inp) : DocId(Ev.inp[i].t, Ev.inp[i].n) \in DOMAIN input'
    /\ \A x \in DOMAIN input' : input'[x] = Observed(x)

TraceNext == /\ l <= Len(Traces[tid])
             /\ Action
             /\ out' = NormOut(Ev.out)
             /\ Ev.chk => InputsAsObserved
             /\ l' = l + 1
             /\ UNCHANGED <<tid, conf, nres, nextEv, got, hist>>
             /\ TLCSet(tid, l + 1)

TraceSpec == TraceInit /\ [][TraceNext]_tvars

Progress(t) == TLCGet(t)
TraceAccepted ==       \* every trace consumed completely; all the others are printed (not only the first)
    LET bad == {t \in 1..Len(Traces) : Progress(t) # Len(Traces[t]) + 1}
    IN (\A t \in bad : PrintT(<<"REJECTED", t, Progress(t)>>)) /\ bad = {}
=============================================================================
