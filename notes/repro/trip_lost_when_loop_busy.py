"""Observation (DESIGN.md 8.3): a suspender that trips while the event loop is busy for more than 0.1 s never suspends the plan.

SuspenderBase.__make_event schedules the creation of its asyncio.Event on the RunEngine's loop and waits for it with a
wall-clock timeout of 0.1 s; if the loop does not get to it in time (a document consumer that takes 0.2 s, a loaded machine)
the suspender's callback raises RuntimeError('Could not create the ') in the thread that delivered the signal update, no
suspension is requested, and the suspender stays marked tripped without an event -- the plan runs on although the condition
is bad; the later return to nominal then has nothing to release.

usage: PYTHONPATH=/repo/src /venv/bin/python notes/repro/trip_lost_when_loop_busy.py
"""
import threading
import time

from bluesky import Msg, RunEngine
from bluesky.suspenders import SuspendBoolHigh


class Sig:
    name = "sig"

    def __init__(self):
        self.v, self.cbs = 0, []

    def subscribe(self, cb, event_type=None, run=True):
        self.cbs.append(cb)
        if run:
            cb(value=self.v)

    def clear_sub(self, cb):
        self.cbs.remove(cb)

    def get(self):
        return self.v

    def put(self, v):
        self.v = v
        for cb in list(self.cbs):
            cb(value=v)


sig = Sig()
RE = RunEngine({}, context_managers=[])
sus = SuspendBoolHigh(sig)
RE.install_suspender(sus)
log = []
errors = []


def trip():
    try:
        sig.put(1)                # the control system reports the bad condition (from its own thread)
    except Exception as ex:  # noqa
        errors.append(repr(ex))


def slow_consumer(name, doc):
    if name == "start":
        threading.Thread(target=trip).start()
        time.sleep(0.3)           # a consumer that takes its time (writes a file, talks to a database)


RE.subscribe(slow_consumer)
RE.msg_hook = lambda msg: log.append(msg.command)


def plan():
    yield Msg("open_run")
    yield Msg("checkpoint")
    for _ in range(3):
        yield Msg("null")
    yield Msg("close_run")


threading.Timer(2.0, lambda: sig.put(0)).start()      # back to nominal 2 s later (lets a held plan finish)
t0 = time.time()
RE(plan())
held = "wait_for" in log
print("messages:", log, " error in the signal's thread:", errors, f" took {time.time() - t0:.1f}s")
print("PASS: the plan was suspended until the condition cleared" if held else
      "FAIL: the suspender tripped during the run but the plan was never suspended")
raise SystemExit(0 if held else 1)
