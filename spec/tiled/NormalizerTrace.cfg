CONSTANTS
  MaxEv = 0
  MaxKeys = 0
  MutMode = "any"
  FrameMode = "any"
  LateSlots = {}
  WithModern = TRUE
  WithHist = FALSE
SPECIFICATION TraceSpec
INVARIANT C35_InputsNeverModified_KF
INVARIANT C35_ExactlyOneStreamDatum
INVARIANT C35_RangesMatchEvent_KF
INVARIANT C35_InternalValuesKept
INVARIANT C35_SchemaValid
INVARIANT C35_ResourceBeforeDatum
POSTCONDITION TraceAccepted
