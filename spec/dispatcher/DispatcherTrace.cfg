CONSTANTS
  Fns = {"f", "g", "h"}
  Sigs = {"start", "stop"}
  MaxOps = 1000
  MaxTok = 1000
  RefCount = TRUE
SPECIFICATION TraceSpec
INVARIANT C18_DeliveryMatchesLiveTokens
INVARIANT C18_TempDropped
POSTCONDITION TraceAccepted
