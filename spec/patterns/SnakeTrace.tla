----------------------------- MODULE SnakeTrace -----------------------------
(* Implementation orders recorded by the harness (snake_cyclers / outer_product /  *)
(* outer_list_product on arbitrary, larger grids) checked against Snake.tla:       *)
(* each recorded case must equal the specified order and satisfy every invariant.  *)
EXTENDS Snake

Cases == ndJsonDeserialize(IOEnv.TRACE_FILE)

TraceInit == \E k \in 1..Len(Cases) :
                /\ lens = Cases[k].lens
                /\ flags = Cases[k].flags
                /\ order = Cases[k].order
TraceSpec == TraceInit /\ [][Next]_vars

Conforms == order = SnakeOrder(lens, flags)
AllSeen == TLCGet("stats").distinct = Cardinality({Cases[k] : k \in 1..Len(Cases)})
=============================================================================
