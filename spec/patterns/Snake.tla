------------------------------- MODULE Snake -------------------------------
(***************************************************************************)
(* C26 -- snaked grids.  The order is defined DIRECTLY from the documented *)
(* statement: at step t the index of axis i is the i-th mixed-radix digit  *)
(* of t, reversed when the axis is snaked and the combined index of all    *)
(* slower axes (t \div period of axis i) is odd.  The invariants state the *)
(* property; TLC checks them for every grid in the bounded domain, and the *)
(* harness replays every grid against bluesky's snake_cyclers /            *)
(* outer_product / outer_list_product.                                     *)
(***************************************************************************)
EXTENDS Naturals, Sequences, SequencesExt, FiniteSets, TLC, Json, IOUtils

CONSTANTS MaxAxes, MaxLen, MaxTotal

VARIABLES lens, flags, order

vars == <<lens, flags, order>>

RECURSIVE Prod(_, _, _)
Prod(s, a, b) == IF a > b THEN 1 ELSE s[a] * Prod(s, a + 1, b)

N(l) == Len(l)
Total(l) == Prod(l, 1, N(l))
Digit(l, i, t) == (t \div Prod(l, i + 1, N(l))) % l[i]
Slower(l, i, t) == t \div Prod(l, i, N(l))            \* combined index of all slower axes
Idx(l, f, i, t) == IF f[i] /\ Slower(l, i, t) % 2 = 1 THEN l[i] - 1 - Digit(l, i, t) ELSE Digit(l, i, t)

SnakeOrder(l, f) == [t \in 1..Total(l) |-> [i \in 1..N(l) |-> Idx(l, f, i, t - 1)]]

Grids == UNION {[1..n -> 1..MaxLen] : n \in 1..MaxAxes}
Domain == {g \in Grids : Total(g) <= MaxTotal}

Init == /\ lens \in Domain
        /\ flags \in [1..Len(lens) -> BOOLEAN]
        /\ order = SnakeOrder(lens, flags)

Next == UNCHANGED vars
Spec == Init /\ [][Next]_vars

----------------------------------------------------------------------------
Product(l) == [1..N(l) -> Nat] \* not enumerated; membership only

InGrid(p) == \A i \in 1..N(lens) : p[i] \in 0..(lens[i] - 1)

\* a permutation of the full Cartesian product
Permutation ==
    /\ Len(order) = Total(lens)
    /\ \A t \in 1..Len(order) : InGrid(order[t])
    /\ \A s, t \in 1..Len(order) : s # t => order[s] # order[t]

\* unsnaked axes follow plain product order
UnsnakedProductOrder ==
    \A i \in 1..N(lens) : ~flags[i] =>
        \A t \in 1..Len(order) : order[t][i] = Digit(lens, i, t - 1)

\* A slower axis advanced between t and t+1 (0-based t-1 -> t) iff the combined
\* slower index changed.  Every snaked axis reverses direction exactly then.
Dir(i, t) == IF flags[i] /\ Slower(lens, i, t - 1) % 2 = 1 THEN 0 ELSE 1    \* 1 forward, 0 backward
SnakedReverses ==
    \A i \in 2..N(lens) : flags[i] =>
        \A t \in 1..(Len(order) - 1) :
            LET adv == Slower(lens, i, t - 1) # Slower(lens, i, t)
            IN /\ adv <=> Dir(i, t) # Dir(i, t + 1)
               \* within a sweep the axis moves monotonically (by 0 or 1 step) in its direction
               /\ ~adv => \/ order[t + 1][i] = order[t][i]
                          \/ order[t + 1][i] = IF Dir(i, t) = 1 THEN order[t][i] + 1 ELSE order[t][i] - 1
               \* at a reversal the axis stays where it is (continuity)
               /\ adv => order[t + 1][i] = order[t][i]

\* with every non-slowest axis snaked, consecutive points differ in exactly one axis, by one step
Abs(x, y) == IF x > y THEN x - y ELSE y - x
Continuous ==
    (\A i \in 2..N(lens) : flags[i]) =>
        \A t \in 1..(Len(order) - 1) :
            /\ Cardinality({i \in 1..N(lens) : order[t][i] # order[t + 1][i]}) = 1
            /\ \A i \in 1..N(lens) : Abs(order[t][i], order[t + 1][i]) <= 1

\* In general: the changed axes between consecutive points are the fastest changed
\* axis j plus only UNSNAKED axes faster than j (which wrap to 0).
FastestChanged ==
    \A t \in 1..(Len(order) - 1) :
        LET ch == {i \in 1..N(lens) : order[t][i] # order[t + 1][i]}
            slowest == CHOOSE j \in ch : \A k \in ch : j <= k
        IN /\ ch # {}
           /\ \A i \in ch : i # slowest => ~flags[i]

----------------------------------------------------------------------------
\* case dump for replay: one record per grid
Case(l, f) == [lens |-> l, flags |-> f, order |-> SnakeOrder(l, f)]
DumpCases ==
    TLCGet("stats").generated >= 0 /\ ndJsonSerialize(IOEnv.CASES_OUT,
        SetToSeq({Case(c[1], c[2]) : c \in {<<l, f>> \in Domain \X UNION {[1..n -> BOOLEAN] : n \in 1..MaxAxes} : Len(l) = Len(f)}}))
=============================================================================
