CONSTANTS
  MaxNum = 0
  DelayVals = {0}
  MaxLen = 0
  DurVals = {0}
  MaxStop = 1000000
SPECIFICATION TraceSpec
INVARIANT C28_ExactlyNum
INVARIANT C28_CheckpointBeforeEachRepetition
INVARIANT C28_SleepOnlyPositiveRemainder
INVARIANT C28_RemainderIsSlept
INVARIANT C28_EnoughDelaysAccepted
INVARIANT C28_TooFewDelaysRaise
POSTCONDITION TraceAccepted
