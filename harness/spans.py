"""API-only OpenTelemetry recorder (opentelemetry-sdk is not installed): a TracerProvider whose spans log start/end with
their attributes into the current Recorder as `span` events:  ['span', 'start'|'end', exit_status, reason, '', sid, 0]
Only the RunEngine's per-run spans ("... run") are logged.  Must be imported before bluesky."""
import contextlib
import itertools

from opentelemetry import trace
from opentelemetry.trace import INVALID_SPAN_CONTEXT, Tracer, TracerProvider

SINK = [None]
_ids = itertools.count(1)


class RecSpan(trace.NonRecordingSpan):
    def __init__(self, name):
        super().__init__(INVALID_SPAN_CONTEXT)
        self.name = name
        self.sid = next(_ids)
        self.attrs = {}
        self.is_run = name.endswith(" run")
        if self.is_run and SINK[0] is not None:
            SINK[0].ev("span", "start", "", "", self.sid, 0)

    def set_attribute(self, k, v):
        self.attrs[k] = v

    def end(self, end_time=None):
        if self.is_run and SINK[0] is not None:
            SINK[0].ev("span", "end", str(self.attrs.get("exit_status", "")), "", self.sid, 0)

    def is_recording(self):
        return True


class RecTracer(Tracer):
    def start_span(self, name, *a, **k):
        return RecSpan(name)

    @contextlib.contextmanager
    def start_as_current_span(self, name, *a, **k):
        s = self.start_span(name)
        with trace.use_span(s, end_on_exit=True):
            yield s


class RecProvider(TracerProvider):
    def get_tracer(self, *a, **k):
        return RecTracer()


try:
    trace.set_tracer_provider(RecProvider())
except Exception:  # noqa
    pass
