---------------------------- MODULE DispatcherErr ----------------------------
(***************************************************************************)
(* C19 -- callbacks see every document once, in order; error policy.       *)
(*                                                                         *)
(* Implementation-shaped model of                                          *)
(*   CallbackRegistry.process  (ordered registry: one dict per document    *)
(*       kind keyed by increasing cid => invocation order = subscription   *)
(*       order; try/except around each call; ignore_exceptions),           *)
(*   Dispatcher.process / RunEngine.emit_sync,                             *)
(*   the RunBundler commands that emit (open_run -> start, save ->         *)
(*       [descriptor,] event, close_run -> stop; run_is_open is set before *)
(*       the start is emitted and cleared only after the stop went out),   *)
(*   RunEngine._run: an exception out of a command is thrown into the plan *)
(*       at that message; unhandled => exit_status 'fail', open runs are   *)
(*       closed by the engine (exceptions of that closing emit are logged  *)
(*       and swallowed), the call raises the exception.                    *)
(*                                                                         *)
(* A callback is identified with its position in subscription order.       *)
(* cfg.raise[f] = set of (global, 1-based) document indices at which       *)
(* callback f raises when invoked.                                         *)
(*                                                                         *)
(* deliverAll = FALSE is the code as found: under the propagate policy     *)
(* delivery of a document stops at the first raising callback.             *)
(* deliverAll = TRUE is a repaired registry that still hands the document  *)
(* to every callback and re-raises the first exception afterwards (see     *)
(* KF_C19_1 below / notes/C19.md).                                         *)
(***************************************************************************)
EXTENDS Naturals, Sequences, FiniteSets, TLC, Json

CONSTANTS Dom,          \* which scenario domain (see Scenarios): "cfg" = the next three constants, or a named union
          NCb,          \* number of callbacks
          Names,        \* subscription names explored, subset of {"all","start","descriptor","event","stop"}
          PlanIds,      \* which of the plans below are explored
          MaxRaise,     \* callbacks raise at <= MaxRaise document indices each
          DeliverAlls   \* subset of BOOLEAN: registry behaviours explored, see above

Matches(name, kind) == name = "all" \/ name = kind

\* small plans: open_run / (create, read, save)* / close_run ; 4 = two consecutive runs ; 5 = the plan forgets close_run
Cmds(p) == CASE p = 1 -> <<"open_run", "close_run">>
             [] p = 2 -> <<"open_run", "create", "read", "save", "close_run">>
             [] p = 3 -> <<"open_run", "create", "read", "save", "create", "read", "save", "close_run">>
             [] p = 4 -> <<"open_run", "close_run", "open_run", "close_run">>
             [] p = 5 -> <<"open_run", "create", "read", "save">>
             [] p = 6 -> <<"open_run", "create", "read", "save", "close_run", "open_run", "close_run">>

\* documents emitted when nothing raises (only used to bound Init and to state "the plan ran to completion")
RECURSIVE Nominal(_, _, _, _)
Nominal(cmds, i, isopen, desc) ==
    IF i > Len(cmds)
    THEN IF isopen THEN <<"stop">> ELSE <<>>
    ELSE LET c == cmds[i]
         IN IF c = "open_run" THEN <<"start">> \o Nominal(cmds, i + 1, TRUE, FALSE)
            ELSE IF c = "save" THEN (IF desc THEN <<"event">> ELSE <<"descriptor", "event">>) \o Nominal(cmds, i + 1, isopen, TRUE)
            ELSE IF c = "close_run" THEN <<"stop">> \o Nominal(cmds, i + 1, FALSE, FALSE)
            ELSE Nominal(cmds, i + 1, isopen, desc)
NominalDocs(cmds) == Nominal(cmds, 1, FALSE, FALSE)

VARIABLES
  cfg,        \* [names, raise, ignore, catch, cmds]  the scenario (constant along a behaviour)
  deliverAll, \* which registry behaviour this behaviour follows
  phase,      \* "plan" | "closing" (the plan is dead, the engine cleans up) | "done"
  pc,         \* index of the next plan message to fetch
  cur,        \* message whose command is still emitting (0 = none)
  pending,    \* documents that command still has to emit
  isopen,     \* RunBundler.run_is_open
  described,  \* descriptor of the primary stream already emitted in this run
  composed,   \* a stop document was already composed for this run (event_model refuses a second one)
  run,        \* number of runs opened so far
  emitted,    \* sequence of [kind, status, run, msg]: every document handed to Dispatcher.process
  recv,       \* callback -> sequence of document indices it was invoked with
  planExc,    \* [msg, who]: where the plan was thrown an exception, and whose
  result,     \* [how, who]: "ret" / "raise" of the RE(...) call
  out,        \* observable events produced by the last step (a sequence)
  hist

vars == <<cfg, deliverAll, phase, pc, cur, pending, isopen, described, composed, run, emitted, recv, planExc, result, out, hist>>

Cbs == DOMAIN cfg.names
E(op, idx, kind, status, calls, msg, who, how) ==
    [op |-> op, idx |-> idx, kind |-> kind, status |-> status, calls |-> calls, msg |-> msg, who |-> who, how |-> how]
Log(es) == /\ out' = es /\ hist' = hist \o es

----------------------------------------------------------------------------
\* scenario domains.  Per callback: a subscription name and the set of document indices it raises at; a callback only
\* ever sees documents of its kind, so raising indices elsewhere would be the same scenario as not raising there.
RaiseSets(n) == {S \in SUBSET (1..n) : Cardinality(S) <= MaxRaise}
Useful(name, S, nom) == \A i \in S : \/ (i <= Len(nom) /\ Matches(name, nom[i]))
                                     \/ (i >= 2 /\ Matches(name, "stop"))      \* engine-made closing stop can come at any index >= 2
CbOptions(names, nom) == {o \in names \X RaiseSets(Len(nom) + 1) : Useful(o[1], o[2], nom)}
AllNames == {"all", "start", "descriptor", "event", "stop"}
\* with exceptions ignored the plan never sees one: catch is irrelevant there
Policies == {<<TRUE, FALSE>>, <<FALSE, FALSE>>, <<FALSE, TRUE>>}

InitWith(c, da) ==
    /\ cfg = c
    /\ deliverAll = da
    /\ phase = "plan" /\ pc = 1 /\ cur = 0 /\ pending = <<>>
    /\ isopen = FALSE /\ described = FALSE /\ composed = FALSE /\ run = 0
    /\ emitted = <<>>
    /\ recv = [f \in DOMAIN c.names |-> <<>>]
    /\ planExc = [msg |-> 0, who |-> 0]
    /\ result = [how |-> "", who |-> 0]
    /\ out = <<>> /\ hist = <<>>

\* n callbacks with names out of `names`, every plan of ps, every useful raise script, every policy of pols
InitPlans(n, names, ps, pols) ==
    \E p \in ps :
        LET cmds == Cmds(p)
            opts == CbOptions(names, NominalDocs(cmds))
        IN \E a \in [1..n -> opts], pol \in pols, da \in DeliverAlls :
              InitWith([names |-> [f \in 1..n |-> a[f][1]], raise |-> [f \in 1..n |-> a[f][2]],
                        ignore |-> pol[1], catch |-> pol[2], cmds |-> cmds], da)
NoCatch == {<<TRUE, FALSE>>, <<FALSE, FALSE>>}

Init ==
    CASE Dom = "cfg" -> InitPlans(NCb, Names, PlanIds, Policies)
      \* quick tier: 3 callbacks; <= 4 documents with the names that differ at the stop, the 5-document plans with "all"
      \* (name filtering and the catching plan are exhausted on the replay domain, which is checked with all invariants too)
      [] Dom = "exh_quick" -> InitPlans(3, {"all", "stop"}, {1, 2}, NoCatch) \/ InitPlans(3, {"all"}, {3, 4, 5}, NoCatch)
      [] Dom = "replay_quick" -> InitPlans(3, {"all", "stop"}, {1}, Policies) \/ InitPlans(2, {"all", "event", "stop"}, {2, 5}, Policies)
      [] Dom = "exh_thorough" -> InitPlans(3, AllNames, {1, 2, 3, 4, 5}, Policies)
      [] Dom = "replay_thorough" -> \/ InitPlans(3, AllNames, {1}, Policies) \/ InitPlans(3, {"all", "event", "stop"}, {2, 4}, Policies)
                                    \/ InitPlans(2, AllNames, {3, 5, 6}, Policies)

----------------------------------------------------------------------------
\* CallbackRegistry.process(kind, doc #idx): who is invoked, in which order, and whose exception comes out
Matching(kind) == SelectSeq([f \in 1..Len(cfg.names) |-> f], LAMBDA f : Matches(cfg.names[f], kind))
RaisersIn(seq, idx) == SelectSeq(seq, LAMBDA f : idx \in cfg.raise[f])
RECURSIVE UpTo(_, _)
UpTo(seq, f) == IF seq = <<>> THEN <<>> ELSE IF Head(seq) = f THEN <<f>> ELSE <<Head(seq)>> \o UpTo(Tail(seq), f)

Dispatch(kind, idx) ==
    LET m == Matching(kind)
        r == RaisersIn(m, idx)
    IN IF cfg.ignore \/ r = <<>> THEN [calls |-> m, prop |-> 0]                  \* exceptions collected and warned about
       ELSE IF deliverAll THEN [calls |-> m, prop |-> r[1]]                      \* repaired: all called, first exception re-raised
       ELSE [calls |-> UpTo(m, r[1]), prop |-> r[1]]                             \* as found: `raise` inside the loop

Deliver(calls, idx) == recv' = [f \in DOMAIN recv |-> IF \E k \in 1..Len(calls) : calls[k] = f THEN Append(recv[f], idx) ELSE recv[f]]

\* messages that emit nothing (create, read) are fetched and answered without any observable effect
RECURSIVE NextEmitting(_)
NextEmitting(i) == IF i > Len(cfg.cmds) \/ cfg.cmds[i] \notin {"create", "read"} THEN i ELSE NextEmitting(i + 1)

\* One document goes through Dispatcher.process: either the next one of the command in progress, or the first one
\* of the next emitting command of the plan (open_run -> start; save -> [descriptor,] event; close_run -> stop).
\* If a callback's exception comes out, the command dies, the exception is thrown into the plan at that message;
\* the plan either lets it go (the call will raise it, exit_status 'fail') or catches it and returns.
Emit ==
    /\ phase = "plan"
    /\ IF pending # <<>> THEN TRUE ELSE NextEmitting(pc) <= Len(cfg.cmds)
    /\ LET fresh == pending = <<>>
           m == IF fresh THEN NextEmitting(pc) ELSE cur
           c == cfg.cmds[m]
           docs == IF ~fresh THEN pending
                   ELSE IF c = "open_run" THEN <<"start">>
                   ELSE IF c = "save" THEN (IF described THEN <<"event">> ELSE <<"descriptor", "event">>)
                   ELSE <<"stop">>
           kind == Head(docs)
           idx == Len(emitted) + 1
           st == IF kind = "stop" THEN "success" ELSE ""
           run1 == IF fresh /\ c = "open_run" THEN run + 1 ELSE run
           d == Dispatch(kind, idx)
           ev == E("emit", idx, kind, st, d.calls, m, 0, "")
           last == Tail(docs) = <<>>
       IN /\ run' = run1
          /\ composed' = IF c = "open_run" THEN FALSE ELSE IF c = "close_run" THEN TRUE ELSE composed
          /\ emitted' = Append(emitted, [kind |-> kind, status |-> st, run |-> run1, msg |-> m])
          /\ Deliver(d.calls, idx)
          /\ pc' = m + 1
          /\ IF d.prop # 0
             THEN /\ pending' = <<>> /\ cur' = 0                                   \* the command coroutine dies here
                  /\ isopen' = IF c = "open_run" THEN TRUE ELSE isopen              \* run_is_open was set before emitting / is still set
                  /\ UNCHANGED described
                  /\ planExc' = [msg |-> m, who |-> d.prop]
                  /\ result' = IF cfg.catch THEN [how |-> "ret", who |-> 0] ELSE [how |-> "raise", who |-> d.prop]
                  /\ phase' = "closing"
                  /\ Log(<<ev, E("plan_exc", 0, "", "", <<>>, m, d.prop, "")>>)
             ELSE /\ pending' = Tail(docs)
                  /\ cur' = IF last THEN 0 ELSE m
                  /\ isopen' = IF c = "open_run" THEN TRUE ELSE IF c = "close_run" THEN FALSE ELSE isopen
                  /\ described' = IF c = "open_run" THEN FALSE ELSE IF c = "save" THEN TRUE ELSE described
                  /\ UNCHANGED <<planExc, result, phase>>
                  /\ Log(<<ev>>)
    /\ UNCHANGED <<cfg, deliverAll>>

\* The plan is exhausted (or dead).  _run's finally: a run still open gets a stop document from the engine; a failure
\* of that emit is only logged.  When the plan's own close_run already composed the stop (it raised while being
\* delivered) event_model refuses to compose a second one: nothing more is emitted.  Then the call ends.
Finish ==
    /\ IF phase = "plan" THEN pending = <<>> /\ NextEmitting(pc) > Len(cfg.cmds) ELSE phase = "closing"
    /\ LET res == IF phase = "plan" THEN [how |-> "ret", who |-> 0] ELSE result
           idx == Len(emitted) + 1
           st == IF res.how = "raise" THEN "fail" ELSE "success"
           d == Dispatch("stop", idx)
           endev == E("end", 0, "", "", <<>>, 0, res.who, res.how)
       IN /\ result' = res
          /\ IF isopen /\ ~composed
             THEN /\ emitted' = Append(emitted, [kind |-> "stop", status |-> st, run |-> run, msg |-> 0])
                  /\ Deliver(d.calls, idx)
                  /\ Log(<<E("emit", idx, "stop", st, d.calls, 0, 0, ""), endev>>)
             ELSE /\ UNCHANGED <<emitted, recv>>
                  /\ Log(<<endev>>)
    /\ phase' = "done" /\ isopen' = FALSE /\ pc' = Len(cfg.cmds) + 1
    /\ UNCHANGED <<cfg, deliverAll, cur, pending, described, composed, run, planExc>>

Next == Emit \/ Finish
Spec == Init /\ [][Next]_vars

----------------------------------------------------------------------------
(* The property, in the vocabulary of the statement.                         *)
Range(s) == {s[i] : i \in DOMAIN s}
Min(S) == CHOOSE x \in S : \A y \in S : x <= y
RECURSIVE Asc(_)
Asc(S) == IF S = {} THEN <<>> ELSE <<Min(S)>> \o Asc(S \ {Min(S)})
Docs == 1..Len(emitted)
Wants(f, i) == Matches(cfg.names[f], emitted[i].kind)
\* callbacks that raised while processing document i (they were invoked with it and their script says raise)
RaisedOn(i) == {f \in Cbs : i \in cfg.raise[f] /\ i \in Range(recv[f])}

\* (recv and emitted only ever grow, so what holds for them when the call has ended held in every earlier state too:
\* the delivery invariants are evaluated on the final state of each behaviour, which keeps TLC's cost per state low)
Ended == phase = "done"

\* exactly once, in emission order, only documents of the subscribed kinds
C19_OnceInOrder ==
    Ended => \A f \in Cbs : /\ \A a, b \in DOMAIN recv[f] : a < b => recv[f][a] < recv[f][b]
                   /\ \A a \in DOMAIN recv[f] : recv[f][a] \in Docs /\ Wants(f, recv[f][a])

\* callbacks are invoked in subscription order
C19_InvocationOrder == \A k \in DOMAIN out : \A a, b \in DOMAIN out[k].calls : a < b => out[k].calls[a] < out[k].calls[b]

\* with exceptions ignored every callback receives every document of its kinds
C19_IgnoreDeliversAll == (Ended /\ cfg.ignore) => \A f \in Cbs : \A i \in Docs : Wants(f, i) => i \in Range(recv[f])

\* otherwise a callback misses a document of its kinds only when an earlier-subscribed callback raised on it
C19_PropagateDelivers ==
    (Ended /\ ~cfg.ignore) => \A f \in Cbs : \A i \in Docs :
        (Wants(f, i) /\ i \notin Range(recv[f])) => \E g \in RaisedOn(i) : g < f

\* with exceptions ignored the plan is not disturbed: it runs to completion, the call returns, all runs 'success'
C19_IgnoreDoesNotStopPlan ==
    (cfg.ignore /\ phase = "done") =>
        /\ result = [how |-> "ret", who |-> 0]
        /\ planExc.msg = 0
        /\ [i \in Docs |-> emitted[i].kind] = NominalDocs(cfg.cmds)
        /\ \A i \in Docs : emitted[i].kind = "stop" => emitted[i].status = "success"

\* otherwise the first exception raised on a document emitted for the plan reaches the plan at the message that
\* emitted the document, ends it, and (unhandled) comes out of the call
PlanDocs == {i \in Docs : emitted[i].msg # 0}
FirstBad == {i \in PlanDocs : RaisedOn(i) # {} /\ \A j \in PlanDocs : j < i => RaisedOn(j) = {}}
C19_PropagateEndsPlan ==
    (~cfg.ignore /\ phase = "done") =>
        /\ \A i \in FirstBad :
              /\ planExc = [msg |-> emitted[i].msg, who |-> Min(RaisedOn(i))]
              /\ \A j \in PlanDocs : j <= i                                   \* nothing more was emitted for the plan
              /\ ~cfg.catch => result = [how |-> "raise", who |-> Min(RaisedOn(i))]
        /\ FirstBad = {} => (planExc.msg = 0 /\ result.how = "ret")

\* ... and the run is closed as failed: its stop document says 'fail' (when the exception came before the stop)
C19_RunClosedFail ==
    (~cfg.ignore /\ ~cfg.catch /\ phase = "done") =>
        \A i \in FirstBad : emitted[i].kind # "stop" =>
            /\ \E j \in Docs : emitted[j].kind = "stop" /\ emitted[j].run = emitted[i].run /\ emitted[j].status = "fail"
            /\ \A j \in Docs : (emitted[j].kind = "stop" /\ emitted[j].run = emitted[i].run) => emitted[j].status = "fail"

\* every opened run is closed for every callback that subscribed to stop documents
ClosedForAll == \A r \in 1..run : \A f \in Cbs : Matches(cfg.names[f], "stop") =>
                    \E i \in Range(recv[f]) : emitted[i].kind = "stop" /\ emitted[i].run = r
\* KNOWN FINDING KF-C19-1: under the propagate policy a callback raising on a stop document aborts its delivery;
\* later-subscribed callbacks never get a stop for that run (the engine's attempt to close the run as failed dies in
\* event_model "Already composed a RunStop", or its own emit is aborted again, and is only logged).
KF_C19_1 == ~deliverAll /\ ~cfg.ignore /\ \E i \in Docs : emitted[i].kind = "stop" /\ RaisedOn(i) # {}
\* (KF_C19_1 is false in every behaviour of the repaired registry: there the invariant is the strict one)
C19_RunClosedForAll == phase = "done" => (ClosedForAll \/ KF_C19_1)

TypeOK == /\ phase \in {"plan", "closing", "done"}
          /\ DOMAIN recv = Cbs
          /\ cur \in 0..Len(cfg.cmds)

\* replay generation: every terminal state printed with its scenario
Dump == (phase = "done") => PrintT(<<"HIST", ToJson([cfg |-> [names |-> cfg.names, raise |-> [f \in Cbs |-> Asc(cfg.raise[f])],
                                                              ignore |-> cfg.ignore, catch |-> cfg.catch, cmds |-> cfg.cmds],
                                                      da |-> deliverAll, kf |-> (KF_C19_1 /\ ~ClosedForAll), ev |-> hist])>>)
=============================================================================
