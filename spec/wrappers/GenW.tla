-------------------------------- MODULE GenW --------------------------------
(***************************************************************************)
(* Generator protocol vocabulary shared by the wrapper specifications      *)
(* (C22 Wrappers.tla, C23 Paired.tla, C24 RelSet.tla).                     *)
(*                                                                         *)
(* A generator is an environment process with the interface                *)
(*      send(v) | throw(e) | close()   ->   yield m | return r | raise e   *)
(* A value is a record [c, i, m, o]: c = "" for plain data (i = the datum, *)
(* 0 = None; m # "" makes it a message Msg(m, device o, argument i)),      *)
(* otherwise c is an exception class and i its identity tag.               *)
(* Everything is uniformly typed so TLC can compare any two values.        *)
(***************************************************************************)
EXTENDS Naturals, Sequences

V(c, i)    == [c |-> c, i |-> i, m |-> "", o |-> 0]
M(m, o, i) == [c |-> "", i |-> i, m |-> m, o |-> o]     \* a message Msg(m, device o, argument i)
None    == V("", 0)
GenExit == V("GenExit", 0)
RTE     == V("RTE", 0)        \* RuntimeError("generator ignored GeneratorExit") made by Python itself

\* exception classes.  Err/ErrI: ordinary Exception subclasses (thrown in by the driver / raised by a plan);
\* Stop/Abort: bluesky RequestStop/RequestAbort (RunEngineControlException, subclasses of Exception);
\* Base/BaseI: BaseException subclasses that are not Exceptions (KeyboardInterrupt-like);
\* GenExit: GeneratorExit;  RTE: RuntimeError.
ExceptionClasses == {"Err", "ErrI", "ErrO", "Stop", "Abort", "RTE", "TypeErr"}   \* isinstance(e, Exception)
BaseOnlyClasses  == {"Base", "BaseI", "BaseO", "GenExit"}
AllClasses       == ExceptionClasses \cup BaseOnlyClasses
ControlClasses   == {"Stop", "Abort"}                              \* isinstance(e, RunEngineControlException)

IsExc(v)        == v.c # ""
IsException(v)  == v.c \in ExceptionClasses

\* a reaction of a generator to one resumption
R(k, v) == [k |-> k, v |-> v]           \* k \in {"yield", "return", "raise"}

\* Python rules: what a generator in status st may do when resumed with op(a).
\*   fresh + send(None): runs to its first yield / return / raise
\*   susp  + send/throw: any reaction;  susp + close: GeneratorExit is raised inside: the generator may let it
\*   propagate (clean), yield (misbehaviour), or raise something else.
\* (fresh + throw/close and done + anything never run user code; the wrappers never do that to a delegate.)
LegalReaction(st, op, a, r) ==
    /\ st \in {"fresh", "susp"}
    /\ st = "fresh" => op = "send"
    /\ r.k \in {"yield", "return", "raise"}
    /\ r.k = "raise"  => IsExc(r.v)
    /\ r.k \in {"yield", "return"} => ~IsExc(r.v)
    /\ (op = "close" /\ r.k = "return") => FALSE      \* (a clean exit on close is logged as raise GenExit)
    /\ (r.k = "raise" /\ r.v.c = "GenExit") => op = "close"

\* What `yield from sub` makes of the sub-generator's reaction when the delegating generator was resumed with op:
\* "yield" -> the delegating generator yields the same value; otherwise the yield-from expression completes:
\* normally with the return value, or abruptly with an exception.  Closing: Python calls sub.close(); a sub that
\* yields makes sub.close() raise RuntimeError *inside the delegating generator*; a clean sub makes GeneratorExit
\* continue in the delegating generator.
Completion(op, r) ==
    IF op = "close" /\ r.k = "yield" THEN R("raise", RTE)
    ELSE r

\* one interface event
E(g, op, a, r, v) == [g |-> g, op |-> op, a |-> a, r |-> r, v |-> v]
=============================================================================
