CONSTANTS
  Dom = "exh_thorough"
  NCb = 3
  Names = {}
  PlanIds = {}
  MaxRaise = 1
  DeliverAlls = {FALSE}
SPECIFICATION Spec
INVARIANT TypeOK
INVARIANT C19_OnceInOrder
INVARIANT C19_InvocationOrder
INVARIANT C19_IgnoreDeliversAll
INVARIANT C19_PropagateDelivers
INVARIANT C19_IgnoreDoesNotStopPlan
INVARIANT C19_PropagateEndsPlan
INVARIANT C19_RunClosedFail
INVARIANT C19_RunClosedForAll
