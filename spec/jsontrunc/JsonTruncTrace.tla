---------------------------- MODULE JsonTruncTrace ----------------------------
(* Results of the real truncate_json_overflow, classified by the harness:       *)
(*   [sin, sout, raised, leaves]  with leaves[i] = [cls, dt, box, ocls, same]   *)
(* sin / sout are the token lists of the input and of the returned structure;   *)
(* ocls is the class of the i-th leaf of the output, same says it equals the    *)
(* input leaf.  Replayed TLC cases (3-5 concrete representatives each) and      *)
(* random deeper structures are all judged here.  A record that shows exactly   *)
(* an as-found defect is accepted and printed (<<"KF", case, name, ...>>).      *)
EXTENDS JsonTrunc

Cases == ndJsonDeserialize(IOEnv.TRACE_FILE)
VARIABLES cid, sin, sout, raised, obs
tvars == <<vars, cid, sin, sout, raised, obs>>

TraceInit == \E k \in 1..Len(Cases) :
                /\ cid = k
                /\ skel = 0 /\ adt = "none" /\ leaves = <<>>     \* variables of the enumeration, unused here
                /\ sin = Cases[k].sin
                /\ sout = Cases[k].sout
                /\ raised = Cases[k].raised
                /\ obs = Cases[k].leaves
TraceSpec == TraceInit /\ [][UNCHANGED tvars]_tvars

X(i) == Leaf(obs[i].cls, obs[i].dt, obs[i].box)
Has0d == \E i \in 1..Len(obs) : obs[i].box = "arr0"

\* the call returns (a 0-d array makes the as-found code raise: known finding "arr0d")
T_Returns == ~raised \/ (Has0d /\ PrintT(<<"KF", cid, "arr0d", 0>>))
T_SameShape == raised \/ sin = sout
T_Leaves ==
    (raised \/ sin # sout) \/
    \A i \in 1..Len(obs) :
        \/ LeafOK(X(i), obs[i].ocls, obs[i].same)
        \/ (KFName(X(i), obs[i].ocls, obs[i].same) # "none"
            /\ PrintT(<<"KF", cid, KFName(X(i), obs[i].ocls, obs[i].same), i>>))
T_WellFormed == \A i \in 1..Len(obs) : obs[i].cls \in ClassesOf(obs[i].dt) /\ obs[i].ocls \in OutClasses
AllSeen == TLCGet("stats").distinct = Len(Cases)
=============================================================================
