----------------------------- MODULE ZmqChannel -----------------------------
(***************************************************************************)
(* C33 -- bluesky.callbacks.zmq: Publisher -> proxy -> RemoteDispatcher.   *)
(*                                                                         *)
(* Publishers own a prefix (a byte string without spaces; 0 stands for the *)
(* empty prefix) and put frames  prefix " " name " " payload  on a lossless*)
(* FIFO channel (the forwarder proxy).  An adversary may put malformed      *)
(* frames on the same channel:                                             *)
(*   nosep      fewer than two separators                                  *)
(*   badname    the name part is not decodable                             *)
(*   unkname    the name decodes but is no document name                   *)
(*   badpayload the payload cannot be deserialized                         *)
(* The dispatcher (RemoteDispatcher._poll) has a prefix filter (0 = take   *)
(* everything) and a strict flag.  Implementation-shaped: the frame is     *)
(* split, the name decoded, and only then the prefix compared; payload and *)
(* name lookup happen only for frames that pass the filter.                *)
(*                                                                         *)
(* repaired = FALSE is the code as found: the document-name lookup         *)
(* (DocumentNames[name]) is outside every try block, so an unknown name    *)
(* raises KeyError out of _poll also when not strict (KF_C33_1).           *)
(* repaired = TRUE drops such a frame when not strict.                     *)
(***************************************************************************)
EXTENDS Naturals, Sequences, FiniteSets, TLC, Json

CONSTANTS Prefixes,      \* prefixes of the publishers (good frames)
          BadPrefixes,   \* prefixes the adversary puts on malformed frames
          DPrefixes,     \* prefixes the dispatcher may be configured with
          GoodNames,     \* document names used by publishers
          BadKinds,      \* subset of {"nosep","badname","unkname","badpayload"}
          MaxFrames,     \* frames put on the channel
          MaxInFlight,   \* channel capacity explored
          Repaireds      \* subset of BOOLEAN: which _poll behaviours are explored

VARIABLES
  dpfx, strict,   \* dispatcher configuration
  repaired,       \* which _poll this behaviour follows
  chan,           \* frames in flight, FIFO
  sent,           \* every frame put on the channel, in order
  delivered,      \* (name, doc) pairs handed to the subscribed callbacks, in order
  stopped,        \* _poll has terminated with an exception (start() raises it)
  last,           \* the frame _poll handled last ([kind |-> "none"] initially)
  log             \* outcome of every receive step: [f, dl, stopped] (replay)

vars == <<dpfx, strict, repaired, chan, sent, delivered, stopped, last, log>>

Frame(kind, pfx, name, tok) == [kind |-> kind, pfx |-> pfx, name |-> name, tok |-> tok]
NoFrame == Frame("none", 0, "", 0)
O(f, dl, st) == [f |-> f, dl |-> dl, stopped |-> st]

InitWith(d, s, r) ==
    /\ dpfx = d /\ strict = s /\ repaired = r
    /\ chan = <<>> /\ sent = <<>> /\ delivered = <<>> /\ stopped = FALSE /\ last = NoFrame
    /\ log = <<>>

Init == \E d \in DPrefixes, s \in BOOLEAN, r \in Repaireds : InitWith(d, s, r)

\* a frame goes onto the channel
Put(f) ==
    /\ ~stopped                  \* (once start() has raised nothing observable can happen any more)
    /\ Len(sent) < MaxFrames /\ Len(chan) < MaxInFlight
    /\ chan' = Append(chan, f) /\ sent' = Append(sent, f)
    /\ UNCHANGED <<dpfx, strict, repaired, delivered, stopped, last, log>>

\* Publisher(prefix = p)(n, doc): the document is identified by its position (content equality is decided by the harness)
Publish(p, n) == Put(Frame("good", p, n, Len(sent) + 1))
\* the adversary; a malformed frame may carry a payload that would be a valid document: it has an identity too
Inject(k, p) == Put(Frame(k, IF k = "nosep" THEN 0 ELSE p, "", Len(sent) + 1))

Mine(f) == dpfx = 0 \/ f.pfx = dpfx

\* what _poll does with the frame at the head of the channel: "deliver", "drop", "raise"
Fate(f) ==
    IF f.kind = "nosep" THEN {IF strict THEN "raise" ELSE "drop"}
    ELSE IF f.kind = "badname"
         THEN IF ~strict THEN {"drop"}
              ELSE IF Mine(f) THEN {"raise"} ELSE {"raise", "drop"}      \* not ours anyway: raising (as coded) or ignoring are both fine
    ELSE IF ~Mine(f) THEN {"drop"}                                       \* filtered by prefix
    ELSE IF f.kind = "badpayload" THEN {IF strict THEN "raise" ELSE "drop"}
    ELSE IF f.kind = "unkname" THEN {IF strict \/ ~repaired THEN "raise" ELSE "drop"}
    ELSE {"deliver"}

Recv ==
    /\ ~stopped /\ chan # <<>>
    /\ LET f == Head(chan)
       IN \E fate \in Fate(f) :
            /\ chan' = Tail(chan)
            /\ last' = f
            /\ delivered' = IF fate = "deliver" THEN Append(delivered, <<f.name, f.tok>>) ELSE delivered
            /\ stopped' = (fate = "raise")
            /\ log' = Append(log, O(f, SubSeq(delivered', Len(delivered) + 1, Len(delivered')), stopped'))
    /\ UNCHANGED <<dpfx, strict, repaired, sent>>

Next == \/ \E p \in Prefixes, n \in GoodNames : Publish(p, n)
        \/ \E k \in BadKinds, p \in BadPrefixes : Inject(k, p)
        \/ Recv

Spec == Init /\ [][Next]_vars

----------------------------------------------------------------------------
(* The property, in the vocabulary of the statement.                         *)
Good(f) == f.kind = "good"
\* what a dispatcher with this prefix has to deliver out of a sequence of frames: its publisher's documents, in order
Expected(frames) == LET own == SelectSeq(frames, LAMBDA f : Good(f) /\ Mine(f))
                    IN [i \in 1..Len(own) |-> <<own[i].name, own[i].tok>>]
IsPrefix(a, b) == Len(a) <= Len(b) /\ \A i \in 1..Len(a) : a[i] = b[i]

\* only that publisher's documents, equal content, same order, no duplicates
C33_OnlyOwnInOrder == IsPrefix(delivered, Expected(sent))
\* nothing is lost: every document given to a publisher has been delivered or is still in flight
C33_NothingLost == ~stopped => delivered \o Expected(chan) = Expected(sent)
\* a malformed frame never delivers anything
C33_MalformedDeliversNothing == \A i \in DOMAIN log : ~Good(log[i].f) => log[i].dl = <<>>
\* strict: the dispatcher raises only because of a malformed frame, and does raise on a malformed frame meant for it
C33_StrictRaisesOnMalformed ==
    strict => /\ stopped => ~Good(last) /\ last.kind # "none"
              /\ (last.kind \in {"nosep", "badname", "unkname", "badpayload"} /\ (last.kind = "nosep" \/ Mine(last))) => stopped
\* not strict: malformed frames are dropped, the dispatcher keeps going
KF_C33_1 == ~repaired /\ ~strict /\ stopped /\ last.kind = "unkname" /\ Mine(last)
\* (KF_C33_1 is false in every behaviour of the repaired _poll: there the invariant is the strict one)
C33_NonStrictNeverStops == ~strict => (~stopped \/ KF_C33_1)

TypeOK == /\ Len(sent) <= MaxFrames /\ Len(chan) <= MaxInFlight
          /\ stopped \in BOOLEAN

\* replay generation: every quiescent state (all frames sent so far handled, or dispatcher dead); scenario = frames of log
Dump == (chan = <<>> \/ stopped) =>
           PrintT(<<"HIST", ToJson([dpfx |-> dpfx, strict |-> strict, repaired |-> repaired, kf |-> KF_C33_1, log |-> log])>>)
=============================================================================
