"""C22 -- cleanup wrappers run their cleanup exactly once on every exit path.

spec/wrappers/Wrappers.tla gives finalize_wrapper / finalize_decorator / contingency_wrapper the reference semantics
of the Python statement they document (try / except Exception / else / finally, no cleanup when the generator is
closed) between a driver (send / throw / close) and environment generators body / except / else / final (GenW.tla).
TLC checks the C22_* invariants (cleanup exactly once iff not closed, except/else exactly when Python would, outcome
preserved) for every driver script and every delegate behaviour within the bound.  Every maximal behaviour is replayed
through the REAL wrapper with scripted (real) generators and through the literal Python statement; interface events
must be identical.  Random nests of the real wrappers under random drivers are recorded and validated by TLC.
"""
import copy
import json
import random
import re
import gc
import sys

from harness import wrapproto as wp
from harness.core import MachineryError
from harness.tlc import run_tlc, write_cfg, SPEC
from harness.tracecheck import validate_traces

SD = SPEC / "wrappers"
DESIGN_REF = "DESIGN.md section 7 (C22), Appendix E; notes/C22.md"
LEVEL_TEXT = ("bounded-exhaustive TLC on the reference semantics of try/except/else/finally (with the GeneratorExit exemption) over "
              "a generator-protocol environment + conformance: every TLC behaviour replayed through finalize_wrapper, "
              "finalize_decorator, contingency_wrapper and the literal Python statement; random nests validated by TLC; one open "
              "finding (cleanup on close inside the except/else plan of contingency_wrapper)")
TECHNIQUE = ("TLA+ reference semantics of try/except/else/finally over a generator-protocol environment, exhaustive TLC; "
             "every TLC behaviour replayed through the real wrappers and a literal Python statement; batch trace validation")
INVS = ["C22_CleanupAtMostOnce", "C22_CleanupAfterEveryExit", "C22_CleanupLast", "C22_NoCleanupOnClose",
        "C22_NotStartedNothingRuns", "C22_ExceptWhenPythonWould", "C22_ElseWhenPythonWould", "C22_OutcomePreserved",
        "C22_CloseIsQuiet"]
KINDS = {"finalize_wrapper", "finalize_decorator", "contingency"}
HIST_RE = re.compile(r'<<"HIST", "((?:[^"\\]|\\.)*)">>')


def cfg_key(c):
    return f"{c['kind']}:{'X' if c['hasX'] else '-'}{'E' if c['hasE'] else '-'}{'F' if c['hasF'] else '-'}{'a' if c['auto'] else '-'}"


def kf_point(h):
    """index of the event where GeneratorExit leaves the except / else plan, or None"""
    for k, e in enumerate(h):
        if e["g"] in ("exc", "els") and e["op"] == "close" and e["r"] == "raise" and e["v"]["c"] == "GenExit":
            return k
    return None


def tlc_histories(res):
    return [json.loads(json.loads('"' + m.group(1) + '"')) for m in HIST_RE.finditer(res.stdout)]


def run(ctx):
    old_hook = sys.unraisablehook
    sys.unraisablehook = lambda *a: None      # generators that ignored GeneratorExit are finalised noisily by CPython
    try:
        _run(ctx)
    finally:
        gc.collect()                 # left-over generators are finalised while the hook is still silenced
        sys.unraisablehook = old_hook


def _run(ctx):
    # ---- 1. the design: exhaustive over all driver scripts / delegate behaviours within the bound -------------
    cfg = "Wrappers_small.cfg" if ctx.quick else "Wrappers_large.cfg"
    res = run_tlc("Wrappers", cfg, spec_dir=SD, tag="C22", timeout=3000)
    ctx.add_tlc(res, "Wrappers exhaustive " + cfg)
    if not res.ok:
        st = res.trace[-1][1] if res.trace else {}
        h = [wp.short(e) for e in st.get("hist", ())]
        ctx.violation(f"spec:{res.violated}", f"Wrappers.tla {res.kind} {res.violated} violated: cfg={st.get('cfg')} history {h}",
                      {"hist": h, "cfg": st.get("cfg")})
        return
    ctx.cov["exhaustive"] = True
    # ---- 2. spec -> code: every maximal behaviour through the real wrapper and the literal Python statement ----
    plans = [({"MaxOps": 3, "BodyMsgs": 2, "HandlerMsgs": 1, "Thrown": {"Err", "Stop", "Abort", "Base"}, "InnerRaise": {"ErrI"},
               "CatchThrow": True, "MisbehaveClose": True}, KINDS)]
    if not ctx.quick:
        plans = [({"MaxOps": 4, "BodyMsgs": 3, "HandlerMsgs": 2, "Thrown": {"Err", "Stop", "Abort", "Base"},
                   "InnerRaise": {"ErrI", "BaseI"}, "CatchThrow": True, "MisbehaveClose": True}, KINDS),
                 ({"MaxOps": 6, "BodyMsgs": 3, "HandlerMsgs": 2, "Thrown": {"Err", "Abort"}, "InnerRaise": {"ErrI"},
                   "CatchThrow": False, "MisbehaveClose": False}, {"contingency"})]
    ctx.rule = ("case = one maximal behaviour of Wrappers.tla (wrapper configuration, driver script, reactions of the "
                "body/except/else/final generators) replayed through the real wrapper and through the literal Python statement; "
                "distinct by (configuration, full event sequence); non-trivial = contains a throw, a close or a raising delegate; "
                "plus interface traces of random nests of real wrappers validated by TLC")
    n_kf_hist = 0
    for pk, (consts, kinds) in enumerate(plans):
        cfgp = write_cfg(ctx.out / f"replay{pk}.cfg", dict(consts, Kinds=set(kinds), AsCoded=True), invariants=INVS,
                         constraints=["DumpHist"])
        res = run_tlc("Wrappers", cfgp, spec_dir=SD, tag="C22r", workers=1, timeout=6000)
        ctx.add_tlc(res, f"replay generation {consts}")
        if not res.ok:
            raise MachineryError(f"replay generation config violated {res.violated}")
        hists = tlc_histories(res)
        if not hists:
            raise MachineryError("no histories printed by Wrappers.tla")
        for k, H in enumerate(hists):
            n_kf_hist += bool(H["kf"])
            replay_one(ctx, H, k)

    if n_kf_hist == 0:
        # (reachability of the open finding in the model: its alternative is what the exemption is for)
        raise MachineryError("no behaviour through the as-coded alternative of KF-C22-1 was generated (vacuous exemption)")

    # ---- 3. code -> spec: random nests of the real wrappers, random drivers; traces validated by TLC -----------
    rng = random.Random(ctx.seed)
    traces = wp.random_c22_traces(rng, 250 if ctx.quick else 6000)
    # binding self-check: corrupted copies must be rejected
    bad = []
    for t in traces:
        if len(t["h"]) >= 6 and t["h"][-1]["g"] == "out":
            c1 = copy.deepcopy(t)
            c1["h"][-1]["r"] = "return" if c1["h"][-1]["r"] != "return" else "raise"
            c2 = copy.deepcopy(t)
            del c2["h"][-2]
            bad = [c1, c2]
            break
    chunk = 4000
    n_acc = 0
    for c0 in range(0, len(traces), chunk):
        part = traces[c0:c0 + chunk]
        extra = bad if c0 == 0 else []
        v = validate_traces("WrappersTrace", "WrappersTrace.cfg", part + extra, SD, ctx.out, tag="C22t", timeout=3000)
        ctx.add_tlc(v.res, f"WrappersTrace ({len(part)} traces)")
        for j in range(len(extra)):
            if len(part) + j not in v.rejected:
                raise MachineryError("a corrupted trace was accepted by WrappersTrace (binding broken)")
        kf_traces = {int(x) - 1 for x in re.findall(r'<<"KF", (\d+)>>', v.res.stdout)}
        for idx, t in enumerate(part):
            key = (cfg_key(t["cfg"]), tuple(wp.short(e) for e in t["h"]))
            ctx.case(key, nontrivial(t["h"]))
            if idx in v.rejected:
                upto = v.rejected[idx]
                ctx.violation(f"trace-rejected:{cfg_key(t['cfg'])}:{wp.short(t['h'][upto]) if upto < len(t['h']) else '?'}",
                              f"interface trace of a real {t['cfg']['kind']} rejected by Wrappers.tla at event {upto}: "
                              f"{[wp.short(e) for e in t['h']]}", {"trace": t, "accepted_prefix": upto})
            elif v.invariant and v.inv_trace_index == idx:
                ctx.violation(f"trace-invariant:{v.invariant}:{cfg_key(t['cfg'])}",
                              f"{v.invariant} violated on an implementation trace: {[wp.short(e) for e in t['h']]}", {"trace": t})
            else:
                n_acc += 1
                if idx in kf_traces:
                    report_kf(ctx, t["cfg"], t["h"], "random nest")
        if v.invariant and v.inv_trace_index is None:
            ctx.violation(f"trace-invariant:{v.invariant}", f"{v.invariant} violated on an implementation trace", None)
    ctx.traces(n_acc)
    ctx.assumptions += [
        "CPython generator semantics (yield from / throw / close) as implemented by the interpreter running the check",
        "'closed' means GeneratorExit leaves the wrapped / except / else plan; a plan that answers close() with another "
        "exception or a yield has ended with that exception (Python semantics) and cleanup then runs",
        "pause_for_debug=True is not exercised",
        "delegates are generators or generator-like objects with send/throw/close (bluesky Plan objects)",
    ]


def nontrivial(h):
    return any((e["g"] == "drv" and e["op"] != "send") or (e["g"] not in ("drv", "out") and e["r"] == "raise") for e in h)


def report_kf(ctx, cfg, h, where):
    k = kf_point(h)
    phase = h[k]["g"] if k is not None else "?"
    ctx.violation(f"C22:cleanup-on-close:{cfg['kind']}_wrapper:closed-in-{phase}-plan",
                  f"{cfg['kind']}_wrapper suspended in its {phase} plan and closed: the final plan is started although the "
                  f"generator is being closed ({where}); events {[wp.short(e) for e in h]}", {"cfg": cfg, "hist": h})


def replay_one(ctx, H, k):
    cfg, h, kf = H["cfg"], H["h"], H["kf"]
    key = (cfg_key(cfg), tuple(wp.short(e) for e in h))
    ctx.case(key, nontrivial(h))
    kp = kf_point(h) if cfg["hasF"] else None
    # the literal Python statement: a disagreement is an error of the specification, not a finding
    if not kf:
        got = wp.replay_c22(cfg, h, "literal")
        d = wp.first_diff(h, got)
        if d:
            raise MachineryError(f"Wrappers.tla disagrees with the literal Python statement for {cfg_key(cfg)} on "
                                 f"{[wp.short(e) for e in h]}: at {d[0]} spec {wp.short(d[1])} python {wp.short(d[2])}")
    got = wp.replay_c22(cfg, h, "real", variant=k)
    d = wp.first_diff(h, got)
    if d is None:
        if kf:
            report_kf(ctx, cfg, h, "replayed TLC behaviour")
        if nontrivial(h):
            ctx.sample({"cfg": cfg_key(cfg), "events": [wp.short(e) for e in h]})
        return
    if kp is not None:
        repaired = h[:kp + 1] + [wp.ev("out", "", None, "closed")]
        if kf and got == repaired:
            return          # the tree behaves like the repaired alternative here: nothing to report
        if not kf and h == repaired and got[:kp + 1] == h[:kp + 1] and len(got) > kp + 1 and got[kp + 1]["g"] == "fin":
            return          # as-coded behaviour; reported by the replay of the as-coded twin behaviour
    ctx.violation(f"replay:{cfg_key(cfg)}:{wp.short(d[1])}|{wp.short(d[2])}",
                  f"real {cfg['kind']} ({cfg_key(cfg)}) differs from Wrappers.tla at event {d[0]}: specified {wp.short(d[1])}, "
                  f"observed {wp.short(d[2])}; behaviour {[wp.short(e) for e in h]}",
                  {"cfg": cfg, "hist": h, "observed": got})
