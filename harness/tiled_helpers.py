"""Shared helpers for C35 (RunNormalizer / _ConditionalBackup) and C46 (TiledWriter batching).

* NormRecorder   -- feeds a real RunNormalizer, deep-snapshots every input before/after, validates every emitted
                    document with the event_model schema validators, abstracts everything to the vocabulary of
                    spec/tiled/Normalizer.tla (small integers for keys/resources/datums, nested dicts as key/value pairs).
* document generators (TLC cases -> concrete documents, random runs, the repository's example streams).
* run_backup     -- drives a real _ConditionalBackup with scripted failures.
* TiledEnv       -- ONE in-process Tiled catalog/app/client built exactly like the fixtures of
                    bluesky/tests/test_tiled_writer.py (temporary directories under ctx.out, removed afterwards).
* batch-run generators and executor for C46 (real TiledWriter, read-back of the container into a `final` event).
"""
from __future__ import annotations

import concurrent.futures
import copy
import json
import os
import re
import shutil
from pathlib import Path

EXAMPLES = Path(os.environ.get("VERIF_REPO_SRC", "/repo/src")) / "bluesky" / "tests" / "examples"
HDF5 = "application/x-hdf5"


# ----------------------------------------------------------------------------------------------------------
# TLC helpers
# ----------------------------------------------------------------------------------------------------------
def run_parallel(jobs):
    """jobs: dict label -> zero-arg callable running TLC; returns dict label -> result (exceptions re-raised)"""
    with concurrent.futures.ThreadPoolExecutor(max_workers=max(1, len(jobs))) as ex:
        futs = {k: ex.submit(f) for k, f in jobs.items()}
        return {k: f.result() for k, f in futs.items()}


def printed_json(stdout, tag):
    """values printed by TLC as <<"TAG", "<json>">>"""
    out = []
    for m in re.finditer(r'<<"' + tag + r'", "((?:[^"\\]|\\.)*)">>', stdout):
        out.append(json.loads(json.loads('"' + m.group(1) + '"')))
    return out


JO_FAST = ["-XX:TieredStopAtLevel=1", "-Xmx2g"]      # short TLC runs: skip the optimizing JIT, small heap
JO_BIG = ["-Xmx4g"]                                   # long runs: bounded heap (several JVMs run side by side)


def validate_traces(module, cfg, traces, spec_dir, out_dir, tag="trace", timeout=1800):
    """harness.tracecheck.validate_traces with JVM options for short runs (same conventions, same verdict object)"""
    from harness.tlc import run_tlc
    from harness.tracecheck import TraceVerdict
    tf = out_dir / f"{tag}.ndjson"
    with open(tf, "w") as fh:
        for t in traces:
            fh.write(json.dumps(t) + "\n")
    res = run_tlc(module, cfg, spec_dir=spec_dir, env={"TRACE_FILE": str(tf)}, workers=1, tag=tag, timeout=timeout,
                  java_opts=JO_FAST if sum(len(t) for t in traces) < 20000 else JO_BIG)
    v = TraceVerdict(ok=res.ok, res=res)
    for m in re.finditer(r'<<"REJECTED", (\d+), (\d+)>>', res.stdout):
        v.rejected[int(m.group(1)) - 1] = int(m.group(2)) - 1
    v.readback = {int(m.group(1)) - 1: int(m.group(2)) for m in re.finditer(r'<<"READBACK", (\d+), (\d+)>>', res.stdout)}
    if res.violated and res.kind in ("invariant", "action"):
        v.invariant = res.violated
        if res.trace:
            st = res.trace[-1][1]
            v.inv_state = st
            if "tid" in st:
                v.inv_trace_index = st["tid"] - 1
            elif "__raw__" in st:
                m = re.search(r"/\\ tid = (\d+)", st["__raw__"])
                if m:
                    v.inv_trace_index = int(m.group(1)) - 1
    elif res.violated and not v.rejected and res.kind != "postcondition":
        v.invariant = res.violated
    return v


def _validate_shard(module, cfg, traces, idxs, spec_dir, out_dir, tag, max_rounds, timeout):
    alive = list(idxs)
    problems, results = [], []
    for _ in range(max_rounds):
        if not alive:
            return problems, 0, results
        v = validate_traces(module, cfg, [traces[i] for i in alive], spec_dir, out_dir, tag=tag, timeout=timeout)
        results.append(v.res)
        if v.invariant and v.inv_trace_index is not None:
            idx = alive[v.inv_trace_index]
            problems.append((idx, "invariant", v.invariant))
            alive.remove(idx)
            continue
        if v.invariant:
            problems.append((-1, "invariant", v.invariant))
            return problems, 0, results
        for j, upto in sorted(v.rejected.items()):
            problems.append((alive[j], "rejected", upto))
        for j, code in sorted(v.readback.items()):
            problems.append((alive[j], "readback", code))
        bad = {alive[j] for j in v.rejected} | {alive[j] for j in v.readback}
        return problems, len([i for i in alive if i not in bad]), results
    problems.append((-1, "unfinished", f"{len(alive)} traces not validated after {max_rounds} rounds"))
    return problems, 0, results


def validate_iter(module, cfg, traces, spec_dir, out_dir, tag, max_rounds=6, timeout=1800, shards=1):
    """Batch trace validation that keeps going after an invariant violation: the offending trace is reported and
    removed, the rest is validated again.  The traces are split over `shards` TLC processes running in parallel.
    Returns (list of (trace_index, kind, detail), n_accepted, list of TLCResults)."""
    shards = max(1, min(shards, len(traces) or 1))
    groups = [list(range(k, len(traces), shards)) for k in range(shards)]
    jobs = {k: (lambda k=k: _validate_shard(module, cfg, traces, groups[k], spec_dir, out_dir, f"{tag}{k}", max_rounds, timeout))
            for k in range(shards) if groups[k]}
    problems, nacc, results = [], 0, []
    for k, (p, n, r) in run_parallel(jobs).items():
        problems += p
        nacc += n
        results += r
    return problems, nacc, results


# ----------------------------------------------------------------------------------------------------------
# abstraction of documents (Normalizer.tla vocabulary)
# ----------------------------------------------------------------------------------------------------------
def vstr(v):
    return v if isinstance(v, str) else json.dumps(v, sort_keys=True)


def kwpairs(d, drop=()):
    return sorted([k, vstr(v)] for k, v in (d or {}).items() if k not in drop)


E0 = {"t": "", "d": 0, "k": 0, "r": 0, "id": 0, "s": 0, "a": 0, "b": 0, "sa": 0, "sb": 0, "val": 0, "kw": [], "ok": True}
I0 = {"op": "", "d": 0, "s": 0, "k": 0, "id": 0, "r": 0, "frame": -1, "kw": [], "hdf5": False, "val": 0, "refs": [],
      "a": 0, "b": 0, "sa": 0, "sb": 0}
TRACKED = {"resource": "resource_kwargs", "datum": "datum_kwargs", "stream_resource": "parameters"}
RESERVED = ("time", "seq_num")


def _diff_keys(old, new):
    add = sorted(k for k in new if k not in old)
    rem = sorted(k for k in old if k not in new)
    chg = sorted(k for k in new if k in old and new[k] != old[k])
    return ("+" + ",".join(add) if add else "") + ("-" + ",".join(rem) if rem else "") + ("~" + ",".join(chg) if chg else "")


class NormRecorder:
    def __init__(self, kmap=None, rmap=None, idmap=None, val_key=None):
        from bluesky.callbacks.tiled_writer import MIMETYPE_LOOKUP, RunNormalizer
        from event_model import DocumentNames, schema_validators
        self._validators = {n.name: schema_validators[n] for n in DocumentNames}
        self._mime = MIMETYPE_LOOKUP
        self.norm = RunNormalizer()
        self.norm.subscribe(self._on_emit)
        self.kmap, self.rmap, self.idmap = dict(kmap or {}), dict(rmap or {}), dict(idmap or {})
        self.val_key = val_key
        self.dmap, self.desc, self.rkey, self.sruid = {}, {}, {}, {}
        self.ext_keys, self.int_keys = set(), set()
        self.vals = {}
        self.inputs = []          # [kind, absid, live doc, snapshot, flagged]
        self.trace = []
        self.sigs = []            # (signature, text) direct observations
        self.changed_steps = []   # per trace event: list of {t, n} newly changed tracked docs
        self._emitted = []
        self.frames = {}          # key -> has frame kwargs
        self.conv = {}            # key -> list of s in conversion order
        self._datum_frame, self._refs, self._sd, self._tainted = {}, {}, {}, set()

    # -- ids -------------------------------------------------------------------------------------------
    @staticmethod
    def _id(m, name):
        if name not in m:
            m[name] = len(m) + 1
        return m[name]

    def _vid(self, data, timestamps, keys=None, rename=False):
        if self.val_key is not None:
            v = data.get(self.val_key, 0)
            return int(v) if isinstance(v, (int, float)) and v == int(v) else 0
        def nm(k):
            return f"_{k}" if rename and k in RESERVED else k
        sel = {nm(k): v for k, v in data.items() if keys is None or k in keys}
        ts = {nm(k): v for k, v in timestamps.items() if keys is None or k in keys}
        return self._id(self.vals, json.dumps({"data": sel, "timestamps": ts}, sort_keys=True, default=str))

    # -- emitted documents ----------------------------------------------------------------------------------
    def _on_emit(self, name, doc):
        self._emitted.append((name, copy.deepcopy(doc)))

    def _resolve_sres(self, uid, data_key=None):
        if uid in self.sruid:
            return self.sruid[uid]
        if uid in self.rmap and data_key is None:
            return self.rmap[uid], self.rkey.get(self.rmap[uid], 0)
        if uid in self.rmap and data_key is not None:
            return self.rmap[uid], self.kmap.get(data_key, 0)
        for ruid, r in self.rmap.items():            # converted Resource: "<resource uid>-<data key>"
            if uid.startswith(ruid + "-") and uid[len(ruid) + 1:] in self.kmap:
                return r, self.kmap[uid[len(ruid) + 1:]]
        return 0, 0

    def _abs_emitted(self, name, doc):
        e = dict(E0, t=name)
        try:
            self._validators[name].validate(doc)
        except Exception:
            e["ok"] = False
        try:
            if name == "descriptor":
                e["d"] = self.dmap.get(doc.get("name"), 0)
            elif name == "event":
                e["d"] = self.desc.get(doc["descriptor"], 0)
                e["s"] = doc["seq_num"]
                e["val"] = self._vid(doc.get("data", {}), doc.get("timestamps", {}))
            elif name == "stream_resource":
                r, k = self._resolve_sres(doc["uid"], doc.get("data_key"))
                self.sruid[doc["uid"]] = (r, k)
                e.update(r=r, k=k, kw=kwpairs(doc.get("parameters")))
            elif name == "stream_datum":
                r, k = self._resolve_sres(doc["stream_resource"])
                e.update(id=self.idmap.get(doc["uid"], 0), r=r, k=k, d=self.desc.get(doc["descriptor"], 0),
                         a=doc["indices"]["start"], b=doc["indices"]["stop"],
                         sa=doc["seq_nums"]["start"], sb=doc["seq_nums"]["stop"])
        except Exception:
            e["ok"] = False
        return e

    # -- input documents ------------------------------------------------------------------------------------
    def _abs_datum(self, doc):
        kw = doc.get("datum_kwargs", {}) or {}
        fr = kw.get("frame", None)
        return dict(I0, op="datum", id=self._id(self.idmap, doc["datum_id"]), r=self._id(self.rmap, doc["resource"]),
                    frame=fr if isinstance(fr, int) else -1, kw=kwpairs(kw, drop=("frame",)))

    def _abs_event(self, doc):
        d = self.desc.get(doc["descriptor"], 0)
        filled = doc.get("filled", {}) or {}
        refs = []
        for key, v in doc["data"].items():
            if key in self.ext_keys and not filled.get(key, False):
                refs.append({"id": self._id(self.idmap, v), "k": self._id(self.kmap, key), "d": d, "s": doc["seq_num"]})
        internal = {k for k in doc["data"] if k in self.int_keys or (k in self.ext_keys and filled.get(k, False))}
        return dict(I0, op="event", d=d, s=doc["seq_num"], refs=refs,
                    val=self._vid(doc["data"], doc.get("timestamps", {}), keys=internal, rename=True))

    def _abs_input(self, name, doc):
        import event_model
        if name in ("start", "stop"):
            return [dict(I0, op=name)]
        if name == "descriptor":
            d = self._id(self.dmap, doc["name"])
            self.desc[doc["uid"]] = d
            for k, v in doc.get("data_keys", {}).items():
                (self.ext_keys if "external" in v else self.int_keys).add(k)
                if "external" in v:
                    self._id(self.kmap, k)
            return [dict(I0, op="descriptor", d=d)]
        if name == "resource":
            return [dict(I0, op="resource", r=self._id(self.rmap, doc["uid"]), kw=kwpairs(doc.get("resource_kwargs")),
                         hdf5=self._mime[doc["spec"]] == HDF5)]
        if name == "datum":
            return [self._abs_datum(doc)]
        if name == "datum_page":
            return [self._abs_datum(d) for d in event_model.unpack_datum_page(doc)]
        if name == "event":
            return [self._abs_event(doc)]
        if name == "event_page":
            return [self._abs_event(d) for d in event_model.unpack_event_page(doc)]
        if name == "stream_resource":
            r = self._id(self.rmap, doc["uid"])
            k = self._id(self.kmap, doc["data_key"])
            self.rkey[r] = k
            self.sruid[doc["uid"]] = (r, k)
            return [dict(I0, op="stream_resource", r=r, k=k, kw=kwpairs(doc.get("parameters")), hdf5=doc.get("mimetype") == HDF5)]
        if name == "stream_datum":
            r = self.rmap.get(doc["stream_resource"], 0)
            return [dict(I0, op="stream_datum", id=self._id(self.idmap, doc["uid"]), r=r, k=self.rkey.get(r, 0),
                         d=self.desc.get(doc["descriptor"], 0), a=doc["indices"]["start"], b=doc["indices"]["stop"],
                         sa=doc["seq_nums"]["start"], sb=doc["seq_nums"]["stop"])]
        raise ValueError(name)

    def _check_inputs(self):
        """deep comparison of every document handed over so far with its snapshot"""
        inp, other, newly = [], False, []
        for ent in self.inputs:
            kind, absid, live, snap, flagged = ent
            if live == snap:
                continue
            nested = TRACKED.get(kind)
            only_nested = nested is not None and {k: v for k, v in live.items() if k != nested} == \
                {k: v for k, v in snap.items() if k != nested} and isinstance(live.get(nested), dict)
            if only_nested:
                kw = live[nested]
                fr = kw.get("frame") if kind == "datum" else None
                inp.append({"t": kind, "n": absid, "frame": fr if isinstance(fr, int) else -1,
                            "kw": kwpairs(kw, drop=("frame",) if kind == "datum" else ())})
                if not flagged:
                    ent[4] = True
                    newly.append({"t": kind, "n": absid})
                    delta = _diff_keys(snap.get(nested) or {}, kw)
                    self.sigs.append((f"input-mutated:{kind}.{nested}:{delta}",
                                      f"RunNormalizer changed the caller's {kind} document: {nested} {snap.get(nested)} -> {kw}"))
            else:
                other = True
                if not flagged:
                    ent[4] = True
                    delta = _diff_keys(snap, live) if isinstance(live, dict) else "?"
                    self.sigs.append((f"input-mutated:{kind}:{delta}", f"RunNormalizer changed the caller's {kind} document: {snap} -> {live}"))
        return inp, other, newly

    def feed(self, name, doc):
        snap = copy.deepcopy(doc)
        self._emitted = []
        exc = None
        evs = self._abs_input(name, snap)
        absid = {"resource": evs[0]["r"], "datum": evs[0]["id"], "stream_resource": evs[0]["r"]}.get(name, 0)
        self.inputs.append([name, absid, doc, snap, False])
        try:
            self.norm(name, doc)
        except Exception as ex:  # noqa
            exc = ex
            self.sigs.append((f"normalizer-raised:{name}:{type(ex).__name__}", f"RunNormalizer raised {ex!r} on a {name} document"))
        outs = [self._abs_emitted(n, d) for n, d in self._emitted]
        for o in outs:
            if not o["ok"]:
                self.sigs.append((f"schema-invalid:{o['t']}", f"emitted {o['t']} document rejected by the event_model schema"))
        inp, other, newly = self._check_inputs()
        # pages: the documents emitted for each unpacked event start at its `event` document
        if name == "event_page" and len(evs) > 1:
            chunks, cur = [], None
            for o in outs:
                if o["t"] == "event":
                    cur = []
                    chunks.append(cur)
                if cur is None:
                    cur = []
                    chunks.append(cur)
                cur.append(o)
            while len(chunks) < len(evs):
                chunks.append([])
            if len(chunks) > len(evs):
                chunks = chunks[:len(evs) - 1] + [sum(chunks[len(evs) - 1:], [])]
        else:
            chunks = [outs] + [[] for _ in evs[1:]]
        for i, (e, o) in enumerate(zip(evs, chunks)):
            last = i == len(evs) - 1
            e.update(out=o, inp=inp, other=other if last else False, chk=last)    # pages: inputs are observed after the whole page
            self.trace.append(e)
            self.changed_steps.append(newly if last else [])
        self._monitor(evs, chunks)
        return exc

    # -- direct monitors of the statement (specific signatures; TLC decides on the same trace independently) ----
    def _monitor(self, evs, chunks):
        for e in evs:
            if e["op"] == "datum":
                self._datum_frame[e["id"]] = e["frame"] >= 0
            if e["op"] == "event":
                for rf in e["refs"]:
                    self._refs[rf["id"]] = rf
        for e, outs in zip(evs, chunks):
            if e["op"] == "event":
                em = [o for o in outs if o["t"] == "event"]
                if len(em) != 1 or em[0]["val"] != e["val"] or em[0]["s"] != e["s"] or em[0]["d"] != e["d"]:
                    self.sigs.append(("internal-values-changed", f"event seq_num={e['s']} was not re-emitted with its internal values: {em}"))
            if e["op"] in ("event", "stop"):
                for o in outs:
                    if o["t"] != "stream_datum":
                        continue
                    self._sd.setdefault(o["id"], []).append(o)
                    rf = self._refs.get(o["id"])
                    if rf is None:
                        self.sigs.append(("stream-datum-unreferenced", f"stream datum emitted for a datum no event referenced: {o}"))
                        continue
                    k, s = rf["k"], rf["s"]
                    order = self.conv.setdefault(k, [])
                    in_order = len(order) + 1 == s and not self._tainted & {k}
                    order.append(s)
                    has_frame = self._datum_frame.get(o["id"], False)
                    if has_frame and not in_order:
                        self._tainted = self._tainted | {k}
                    if (o["a"], o["b"], o["sa"], o["sb"]) != (s - 1, s, s, s + 1):
                        scen = "frame-kwargs:converted-out-of-event-order" if (has_frame and k in self._tainted) \
                            else ("frame-kwargs" if has_frame else "no-frame")
                        self.sigs.append((f"range-mismatch:{scen}",
                                          f"datum of event seq_num={s} (key {k}) became stream datum indices=[{o['a']},{o['b']}) "
                                          f"seq_nums=[{o['sa']},{o['sb']})"))
        if evs and evs[-1]["op"] == "stop":
            sd = self._sd
            for did, rf in self._refs.items():
                n = len(sd.get(did, []))
                if n != 1:
                    self.sigs.append((f"stream-datum-count:{n}", f"datum referenced by event seq_num={rf['s']} (key {rf['k']}) became {n} stream datums"))

    def clean_trace(self):
        keep = tuple(I0) + ("out", "inp", "other", "chk")
        return [{k: e[k] for k in keep} for e in self.trace]


# ----------------------------------------------------------------------------------------------------------
# documents for a case of Normalizer.tla (conf + history of operations)
# ----------------------------------------------------------------------------------------------------------
def case_maps(conf, max_keys):
    nk, nev = conf["nk"], conf["nev"]
    kmap = {f"img{k}": k for k in range(1, nk + 1)}
    if conf["modern"]:
        rmap = {f"sr{k}": k for k in range(1, nk + 1)}
        idmap = {f"sr{k}/{s}": (s - 1) * max_keys + k for k in range(1, nk + 1) for s in range(1, nev + 1)}
    else:
        rmap = {f"res{r}": r for r in range(1, (1 if conf["shared"] else nk) + 1)}
        idmap = {f"dat/{k}/{s}": (s - 1) * max_keys + k for k in range(1, nk + 1) for s in range(1, nev + 1)}
    return kmap, rmap, idmap


def case_doc(conf, h, uid="c35case"):
    """the concrete document for one operation h = {op, d, s, k, id, r} of a Normalizer.tla history"""
    op, s, k, r = h["op"], h["s"], h["k"], h["r"]
    nk = conf["nk"]
    hdf5 = conf["rkind"] != "plain"
    if op == "start":
        return "start", {"uid": uid, "time": 1.0, "scan_id": 1}
    if op == "stop":
        return "stop", {"uid": uid + "-stop", "time": 99.0, "run_start": uid, "exit_status": "success", "reason": "",
                        "num_events": {"primary": conf["nev"]}}
    if op == "descriptor":
        dk = {"x": {"source": "sim", "dtype": "integer", "shape": [], "object_name": "det"}}
        for j in range(1, nk + 1):
            dk[f"img{j}"] = {"source": "file", "dtype": "array", "shape": [1, 2, 2], "dtype_numpy": "<f8",
                             "external": "STREAM:" if conf["modern"] else "FILESTORE:", "object_name": "det"}
        return "descriptor", {"uid": uid + "-d1", "run_start": uid, "time": 2.0, "name": "primary", "data_keys": dk,
                              "object_keys": {"det": list(dk)}, "configuration": {"det": {"data": {}, "timestamps": {}, "data_keys": {}}},
                              "hints": {}}
    if op == "resource":
        kw = {"chunk_shape": [1]}
        if conf["rkind"] == "hdf5path":
            kw["path"] = "/entry/p"
        return "resource", {"uid": f"res{r}", "spec": "AD_HDF5_SWMR_STREAM" if hdf5 else "AD_TIFF", "root": "/data",
                            "resource_path": f"file{r}", "resource_kwargs": kw, "path_semantics": "posix", "run_start": uid}
    if op == "stream_resource":
        kw = {"chunk_shape": [1]}
        if conf["rkind"] == "hdf5path":
            kw["path"] = "/entry/p"
        elif conf["rkind"] == "hdf5":
            kw["dataset"] = "/entry/d"
        return "stream_resource", {"uid": f"sr{k}", "data_key": f"img{k}", "mimetype": HDF5 if hdf5 else "multipart/related;type=image/tiff",
                                   "uri": f"file://localhost/data/file{k}", "parameters": kw, "run_start": uid}
    if op == "datum":
        kw = {"dataset": "/entry/d"} if hdf5 else {"point_number": 0}
        if conf["frames"]:
            kw["frame"] = s - 1
        return "datum", {"datum_id": f"dat/{k}/{s}", "resource": f"res{r}", "datum_kwargs": kw}
    if op == "stream_datum":
        return "stream_datum", {"uid": f"sr{k}/{s}", "stream_resource": f"sr{k}", "descriptor": uid + "-d1",
                                "indices": {"start": s - 1, "stop": s}, "seq_nums": {"start": s, "stop": s + 1}}
    if op == "event":
        data, ts, filled = {"x": 10 + s}, {"x": 10.0 + s}, {}
        if not conf["modern"]:
            for j in range(1, nk + 1):
                data[f"img{j}"] = f"dat/{j}/{s}"
                ts[f"img{j}"] = 10.0 + s
                filled[f"img{j}"] = False
        return "event", {"uid": f"{uid}-e{s}", "time": 10.0 + s, "seq_num": s, "descriptor": uid + "-d1", "data": data,
                         "timestamps": ts, "filled": filled}
    raise ValueError(op)


def norm_out_json(out):
    """emitted documents printed by TLC (kw: set of pairs in arbitrary order) -> comparable form"""
    return [dict(o, kw=sorted([list(p) for p in o["kw"]])) for o in out]


# ----------------------------------------------------------------------------------------------------------
# example streams of the repository and random runs
# ----------------------------------------------------------------------------------------------------------
def example_stream(fname, uuid="c35ex", root="/nonexistent/root"):
    txt = (EXAMPLES / fname).read_text().replace("{{ root_path }}", root).replace("{{ uuid }}", uuid)
    return [(it["name"], it["doc"]) for it in json.loads(txt)]


def reorder_datums(docs, rng, mode="random"):
    """move datum documents: 'late' = all right before stop (the repository's test_bad_document_order), 'random' = each
    datum to a random place after its resource and before stop"""
    datums = [d for d in docs if d[0] == "datum"]
    rest = [d for d in docs if d[0] != "datum"]
    if mode == "late":
        return rest[:-1] + datums + rest[-1:]
    out = list(rest)
    for d in datums:
        lo = max(i for i, x in enumerate(out) if x[0] in ("resource", "descriptor", "start")) + 1
        out.insert(rng.randint(lo, len(out) - 1), d)
    return out


def random_norm_run(rng, n, max_events=6):
    """a random legacy or current document stream (list of (name, doc)), inside the modelled domain"""
    uid = f"c35r{n}"
    modern = rng.random() < 0.3
    nstreams = rng.choice([1, 1, 2])
    docs = [("start", {"uid": uid, "time": 1.0, "scan_id": n, "plan_name": "count"})]
    streams, body = [], []
    kno = 0
    for d in range(1, nstreams + 1):
        nk = rng.choice([0, 1, 1, 2]) if d > 1 or nstreams > 1 else rng.choice([1, 1, 2, 3])
        ints = ["x"] + (["time"] if rng.random() < 0.25 else []) + (["y"] if rng.random() < 0.5 else [])
        keys = []
        shared = nk > 1 and rng.random() < 0.4 and not modern
        for _ in range(nk):
            kno += 1
            rkind = rng.choice(["plain", "hdf5", "hdf5path", "hdf5ds"])
            # freset: the detector's frame counter starts again every `freset` exposures (a file writer rolling over): the
            # stream's indices must go on counting
            keys.append({"name": f"det{d}_img{kno}", "rkind": rkind, "frames": (not modern) and rng.random() < 0.5,
                         "freset": rng.choice([0, 0, 2, 2, 3]), "res": None})
        for j, kk in enumerate(keys):
            kk["res"] = keys[0]["name"] + "-res" if shared else kk["name"] + "-res"
            if shared:
                kk["rkind"] = keys[0]["rkind"]
        dk = {}
        for nm in ints:
            dk[nm] = {"source": "sim", "dtype": "number", "shape": [], "object_name": f"det{d}"}
            if rng.random() < 0.3:
                dk[nm]["dtype_str"] = "<f8"
        for kk in keys:
            dk[kk["name"]] = {"source": "file", "dtype": "array", "shape": [1, 2, 2], "object_name": f"det{d}",
                              "external": "STREAM:" if modern else "FILESTORE:"}
        name = ["primary", "baseline"][d - 1]
        duid = f"{uid}-desc{d}"
        desc = {"uid": duid, "run_start": uid, "time": 2.0 + d, "name": name, "data_keys": dk, "object_keys": {f"det{d}": list(dk)},
                "configuration": {f"det{d}": {"data": {"c": 1}, "timestamps": {"c": 1.5}, "data_keys": {"c": {"source": "s", "dtype": "integer", "shape": []}}}},
                "hints": {f"det{d}": {"fields": ["x"]}}}
        nev = rng.randint(1, max_events)
        streams.append({"d": d, "duid": duid, "keys": keys, "ints": ints, "nev": nev, "name": name})
        docs.append(("descriptor", desc))
        seen = set()
        for kk in keys:
            hdf5 = kk["rkind"] != "plain"
            kw = {"chunk_shape": [1, 2, 2]}
            if kk["rkind"] == "hdf5path":
                kw["path"] = "/entry/path"
            if kk["rkind"] == "hdf5ds":
                kw["dataset"] = "/entry/ds"
            if modern:
                if kk["rkind"] == "plain":
                    kw.update(template="img_{:05d}.tif", join_method="stack")
                docs.append(("stream_resource", {"uid": kk["res"], "data_key": kk["name"], "run_start": uid,
                                                 "mimetype": HDF5 if hdf5 else "multipart/related;type=image/tiff",
                                                 "uri": "file://localhost/data/" + kk["res"], "parameters": kw}))
            elif kk["res"] not in seen:
                seen.add(kk["res"])
                docs.append(("resource", {"uid": kk["res"], "spec": rng.choice(["AD_HDF5_SWMR_STREAM", "XSP3"]) if hdf5 else rng.choice(["AD_TIFF", "SOME_SPEC"]),
                                          "root": "/data", "resource_path": "sub/" + kk["res"], "resource_kwargs": kw,
                                          "path_semantics": "posix", "run_start": uid}))
    # events of all streams interleaved, per stream in seq_num order; each datum before or after its event
    pending = [[s["d"], 1] for s in streams]
    order = []
    while any(p[1] <= streams[p[0] - 1]["nev"] for p in pending):
        p = rng.choice([p for p in pending if p[1] <= streams[p[0] - 1]["nev"]])
        order.append((p[0], p[1]))
        p[1] += 1
    late_all = rng.random() < 0.2
    p_late = rng.choice([0.0, 0.0, 0.3, 0.6])
    late = []
    for d, s in order:
        st = streams[d - 1]
        data, ts, filled = {}, {}, {}
        for nm in st["ints"]:
            data[nm] = round(rng.uniform(-5, 5), 3) if nm != "y" else rng.randint(0, 9)
            ts[nm] = 100.0 + s + rng.random()
        for kk in st["keys"]:
            if modern:
                sd = ("stream_datum", {"uid": f"{kk['res']}/{s}", "stream_resource": kk["res"], "descriptor": st["duid"],
                                       "indices": {"start": s - 1, "stop": s}, "seq_nums": {"start": s, "stop": s + 1}})
                body.append(sd)
                continue
            did = f"{kk['name']}/{s}"
            kw = {"dataset": "/entry/d"} if kk["rkind"] != "plain" else {"point_number": s - 1}
            if kk["frames"]:
                kw["frame"] = (s - 1) % kk["freset"] if kk["freset"] else s - 1
            dat = ("datum", {"datum_id": did, "resource": kk["res"], "datum_kwargs": kw})
            if late_all or rng.random() < p_late:
                late.append(dat)
            else:
                body.append(dat)
            data[kk["name"]] = did
            ts[kk["name"]] = 100.0 + s
            if rng.random() < 0.7:
                filled[kk["name"]] = False
        body.append(("event", {"uid": f"{uid}-e{d}-{s}", "time": 100.0 + s, "seq_num": s, "descriptor": st["duid"],
                               "data": data, "timestamps": ts, "filled": filled}))
    # late datums: anywhere after their event
    for dat in late:
        did = dat[1]["datum_id"]
        pos = next(i for i, x in enumerate(body) if x[0] == "event" and did in x[1]["data"].values())
        body.insert(rng.randint(pos + 1, len(body)), dat)
    body = pack_pages(body, rng)
    nev_by = {s["name"]: s["nev"] for s in streams}
    docs += body + [("stop", {"uid": uid + "-stop", "time": 999.0, "run_start": uid, "exit_status": "success", "reason": "",
                              "num_events": nev_by})]
    return docs


def pack_pages(body, rng, p=0.35):
    """pack runs of consecutive events of one descriptor into event pages and consecutive datums of one resource
    into datum pages (with probability p per run)"""
    import event_model
    out, i = [], 0
    while i < len(body):
        name, doc = body[i]
        j = i + 1
        if name == "event":
            while j < len(body) and body[j][0] == "event" and body[j][1]["descriptor"] == doc["descriptor"] \
                    and set(body[j][1]["data"]) == set(doc["data"]) and set(body[j][1]["filled"]) == set(doc["filled"]):
                j += 1
            if j - i > 1 and rng.random() < p:
                out.append(("event_page", event_model.pack_event_page(*[copy.deepcopy(b[1]) for b in body[i:j]])))
                i = j
                continue
        if name == "datum":
            while j < len(body) and body[j][0] == "datum" and body[j][1]["resource"] == doc["resource"] \
                    and set(body[j][1]["datum_kwargs"]) == set(doc["datum_kwargs"]):
                j += 1
            if j - i > 1 and rng.random() < p:
                out.append(("datum_page", event_model.pack_datum_page(*[copy.deepcopy(b[1]) for b in body[i:j]])))
                i = j
                continue
        out.append(body[i])
        i += 1
    return out


def run_normalizer(docs, **kw):
    rec = NormRecorder(**kw)
    for name, doc in docs:
        rec.feed(name, doc)
    return rec


# ----------------------------------------------------------------------------------------------------------
# _ConditionalBackup
# ----------------------------------------------------------------------------------------------------------
def run_backup(n, fails, bfails, cap=None, nbackups=2):
    """documents 1..n through a real _ConditionalBackup; returns the trace [header, step...] and final deliveries"""
    from bluesky.callbacks.tiled_writer import _ConditionalBackup
    prim, got = [], {b: [] for b in range(1, nbackups + 1)}
    fails, bfails = set(fails), {tuple(x) for x in bfails}

    def primary(name, doc):
        prim.append(doc["i"])
        if doc["i"] in fails:
            raise RuntimeError("primary writer failed")

    def mk(b):
        def backup(name, doc):
            got[b].append(doc["i"])
            if (b, doc["i"]) in bfails:
                raise OSError("backup writer failed")
        return backup

    import logging
    logging.getLogger("bluesky.callbacks.tiled_writer").setLevel(logging.CRITICAL)
    cb = _ConditionalBackup(primary, [mk(b) for b in got], **({} if cap is None else {"maxlen": cap}))
    trace = [{"n": n, "cap": cap if cap is not None else 1000000, "fails": sorted(fails), "bfails": sorted(list(x) for x in bfails)}]
    raised_out = None
    for i in range(1, n + 1):
        before = {b: len(v) for b, v in got.items()}
        np0 = len(prim)
        try:
            cb("event" if 1 < i < n else ("start" if i == 1 else "stop"), {"i": i})
        except Exception as ex:  # noqa
            raised_out = (i, repr(ex))
        trace.append({"raised": len(prim) > np0 and prim[-1] in fails, "to": [got[b][before[b]:] for b in sorted(got)], "prim": list(prim)})
    return trace, got, prim, raised_out


# ----------------------------------------------------------------------------------------------------------
# in-process Tiled (as in bluesky/tests/test_tiled_writer.py: catalog -> app -> context -> client)
# ----------------------------------------------------------------------------------------------------------
class TiledEnv:
    def __init__(self, base: Path):
        self.base = Path(base) / f"tiled-{os.getpid()}"
        self.client = None

    def __enter__(self):
        import tiled.catalog
        import tiled.client as tc
        import tiled.server.app as tsa
        if self.base.exists():
            shutil.rmtree(self.base)
        self.cat_dir = self.base / "tiled_catalog"
        self.files = self.base / "example_files"
        self.cat_dir.mkdir(parents=True)
        self.files.mkdir(parents=True)
        catalog = tiled.catalog.in_memory(
            writable_storage={"filesystem": str(self.cat_dir), "sql": f"duckdb:///{self.cat_dir}/test.db"},
            readable_storage=[str(self.base)],
        )
        self.app = tsa.build_app(catalog)
        self._ctx = tc.Context.from_app(self.app)
        self.context = self._ctx.__enter__()
        self.client = tc.from_context(self.context)
        self._make_files()
        return self

    def _make_files(self, n=64):
        """small real external files: an hdf5 file with one 1-d dataset (the adapters are given real assets)"""
        import h5py
        import numpy as np
        for part in (1, 2, 3):
            with h5py.File(self.files / f"data_part{part}.h5", "w") as f:
                g = f.create_group("entry").create_group("data")
                for k in (1, 2, 3):
                    g.create_dataset(f"key{k}", data=np.arange(n, dtype="float64") + 1000 * k + 100 * part)

    def __exit__(self, *exc):
        try:
            self._ctx.__exit__(*exc)
        finally:
            shutil.rmtree(self.base, ignore_errors=True)
        return False


# ----------------------------------------------------------------------------------------------------------
# C46: runs for the real TiledWriter
# ----------------------------------------------------------------------------------------------------------
STREAM_NAMES = ["primary", "baseline"]


def batch_run_docs(env, uid, ops, keyof, rng=None, pages=False, legacy_meta=False):
    """ops: list of {"op": "event", "d"} | {"op": "stream_datum", "r", "a", "b"} (TiledBatch.tla vocabulary) ->
    (list of (name, doc), per-stream list of event dicts).  Stream d has internal keys x, y; resource r feeds external
    key keyof[r-1] of stream 1 (hdf5, one number per index)."""
    import event_model
    nstreams = max([o["d"] for o in ops if o["op"] in ("event", "redesc")] + [1])
    used_res = sorted({o["r"] for o in ops if o["op"] == "stream_datum"})
    used_keys = sorted({keyof[r - 1] for r in used_res})
    start = {"uid": uid, "time": 1700000000.5, "scan_id": 7, "plan_name": "verif", "detectors": ["det1"], "num_points": 3,
             "sample": {"name": "s", "temperature": 1.5}}
    docs = [("start", start)]
    duids, ddocs = {}, {}
    for d in range(1, nstreams + 1):
        dk = {f"x{d}": {"source": "sim", "dtype": "number", "shape": [], "dtype_numpy": "<f8", "object_name": f"det{d}"},
              f"y{d}": {"source": "sim", "dtype": "integer", "shape": [], "dtype_numpy": "<i8", "object_name": f"det{d}"}}
        if d == 1:
            for k in used_keys:
                dk[f"key{k}"] = {"source": "file", "dtype": "number", "shape": [1], "dtype_numpy": "<f8", "external": "STREAM:",
                                 "object_name": "det1"}
        duids[d] = f"{uid}-desc{d}"
        ddocs[d] = {"uid": duids[d], "run_start": uid, "time": 1700000001.0 + d, "name": STREAM_NAMES[d - 1],
                    "data_keys": dk, "object_keys": {f"det{d}": list(dk)},
                    "configuration": {f"det{d}": {"data": {}, "timestamps": {}, "data_keys": {}}}, "hints": {}}
        docs.append(("descriptor", ddocs[d]))
    for r in used_res:
        k = keyof[r - 1]
        docs.append(("stream_resource", {"uid": f"{uid}-sr{r}", "data_key": f"key{k}", "mimetype": HDF5, "run_start": uid,
                                         "uri": "file://localhost/" + str(env.files / f"data_part{r}.h5").lstrip("/"),
                                         "parameters": {"dataset": f"/entry/data/key{k}", "chunk_shape": [100]}}))
    nev = {d: 0 for d in range(1, nstreams + 1)}
    events = {d: [] for d in range(1, nstreams + 1)}
    nsd = nre = 0
    body = []
    for o in ops:
        if o["op"] == "event":
            d = o["d"]
            nev[d] += 1
            s = nev[d]
            ev = {"uid": f"{uid}-e{d}-{s}", "time": 1700000010.0 + 3 * s + d, "seq_num": s, "descriptor": duids[d],
                  "data": {f"x{d}": 100.0 * d + s + 0.25, f"y{d}": 7 * s + d}, "timestamps": {f"x{d}": 1700000010.0 + s, f"y{d}": 1700000011.0 + s},
                  "filled": {}}
            events[d].append(ev)
            body.append(("event", ev))
        elif o["op"] == "redesc":
            # the stream's device was re-configured mid-run: a new descriptor for the same stream; later events refer to it
            d = o["d"]
            nre += 1
            nd = copy.deepcopy(ddocs[d])
            nd["uid"] = duids[d] = f"{uid}-desc{d}-r{nre}"
            nd["time"] = 1700000005.0 + nre
            nd["configuration"] = {f"det{d}": {"data": {"exposure": 0.1 * nre}, "timestamps": {"exposure": 1700000004.0 + nre},
                                                "data_keys": {"exposure": {"source": "sim", "dtype": "number", "shape": []}}}}
            body.append(("descriptor", nd))
        elif o["op"] == "stream_datum":
            nsd += 1
            body.append(("stream_datum", {"uid": f"{uid}-sr{o['r']}/{nsd}", "stream_resource": f"{uid}-sr{o['r']}", "descriptor": duids[1],
                                          "indices": {"start": o["a"], "stop": o["b"]}, "seq_nums": {"start": o["a"] + 1, "stop": o["b"] + 1}}))
    if pages and rng is not None:
        body = pack_pages(body, rng, p=0.7)
    docs += body
    stop = {"uid": uid + "-stop", "time": 1700000999.0, "run_start": uid, "exit_status": "success", "reason": "",
            "num_events": {STREAM_NAMES[d - 1]: n for d, n in nev.items()}}
    docs.append(("stop", stop))
    return docs, events, start, stop


def _close(a, b, tol=1e-9):
    if isinstance(a, float) or isinstance(b, float):
        try:
            return abs(float(a) - float(b)) <= tol * max(1.0, abs(float(a)), abs(float(b)))
        except Exception:
            return False
    return a == b


def read_back(env, uid, events, start, stop, keyof, nres):
    """the container of the run -> `final` event of TiledBatchTrace (+ human-readable details)"""
    run = env.client[uid]
    md = dict(run.metadata)
    meta_ok = json.loads(json.dumps(md.get("start"), default=str)) == json.loads(json.dumps(start, default=str)) and \
        json.loads(json.dumps(md.get("stop"), default=str)) == json.loads(json.dumps(stop, default=str))
    rows = []
    nodes_ok = True
    arr = [0] * nres
    detail = {"metadata_keys": sorted(md)}
    names = set(run.keys())
    for d in (1, 2):
        name = STREAM_NAMES[d - 1]
        evs = events.get(d)
        if evs is None:
            rows.append([])
            if name in names:
                nodes_ok = False
            continue
        if name not in names:
            rows.append([])
            nodes_ok = False
            continue
        stream = run[name].base
        skeys = set(stream.keys())
        got = []
        if "internal" in skeys:
            df = stream["internal"].read()
            cols = list(df.columns)
            for _, rw in df.iterrows():
                s = int(rw["seq_num"])
                v = 0
                for j, ev in enumerate(evs):
                    exp = {"time": ev["time"], **ev["data"], **{f"ts_{k}": t for k, t in ev["timestamps"].items()}}
                    if set(exp) | {"seq_num"} == set(cols) and all(_close(rw[c], x) for c, x in exp.items()):
                        v = j + 1
                        break
                got.append({"s": s, "v": v})
        elif evs:
            pass
        rows.append(got)
        exp_nodes = ({"internal"} if evs else set())
        if d == 1:
            used = sorted({keyof[r - 1] for r in range(1, nres + 1) if keyof[r - 1] > 0})
            for k in range(1, nres + 1):
                if f"key{k}" in skeys:
                    node = stream[f"key{k}"]
                    shp = tuple(node.shape)
                    arr[k - 1] = int(shp[0]) if len(shp) == 1 else -1
        detail[name] = {"nodes": sorted(skeys), "rows": got}
        detail.setdefault("expected_nodes", {})[name] = sorted(exp_nodes)
        if not exp_nodes <= skeys or any(n not in exp_nodes and not n.startswith("key") for n in skeys):
            nodes_ok = False
    detail["arr"] = arr
    return {"op": "final", "rows": rows, "arr": arr, "meta": bool(meta_ok), "nodes": bool(nodes_ok)}, detail


def execute_batch_run(env, uid, ops, keyof, batch, nres=3, rng=None, pages=False):
    """feed the run to a real TiledWriter(batch_size=batch) and read the container back; returns (trace, detail)"""
    import warnings
    from bluesky.callbacks.tiled_writer import TiledWriter
    docs, events, start, stop = batch_run_docs(env, uid, ops, keyof, rng=rng, pages=pages)
    tw = TiledWriter(env.client, batch_size=batch)
    sent = copy.deepcopy(docs)
    with warnings.catch_warnings():
        warnings.simplefilter("ignore")
        for name, doc in sent:
            tw(name, doc)
    key_full = list(keyof) + [0] * (nres - len(keyof))
    trace = [{"batch": batch, "keyof": [k if k > 0 else 1 for k in key_full]}]
    nev = {}
    for o in ops:
        if o["op"] == "event":
            nev[o["d"]] = nev.get(o["d"], 0) + 1
            trace.append({"op": "event", "d": o["d"], "s": nev[o["d"]], "r": 0, "a": 0, "b": 0})
        elif o["op"] == "redesc":
            trace.append({"op": "redesc", "d": o["d"], "s": 0, "r": 0, "a": 0, "b": 0})
        else:
            trace.append({"op": "stream_datum", "d": 0, "s": 0, "r": o["r"], "a": o["a"], "b": o["b"]})
    trace.append({"op": "stop", "d": 0, "s": 0, "r": 0, "a": 0, "b": 0})
    used = {keyof[o["r"] - 1] for o in ops if o["op"] == "stream_datum"}
    final, detail = read_back(env, uid, events, start, stop, key_full, nres)
    # an array node must exist exactly for the keys that received stream datums
    for k in range(1, nres + 1):
        if (final["arr"][k - 1] != 0) != (k in used) and not (k in used and final["arr"][k - 1] == 0 and
                                                               all(o["a"] == o["b"] for o in ops if o["op"] == "stream_datum")):
            pass
    trace.append(final)
    detail["docs"] = [n for n, _ in docs]
    return trace, detail


def random_batch_ops(rng, max_ev=8, max_sd=6, nres=3):
    """random run in TiledBatch.tla vocabulary: events of two streams, stream datums mostly contiguous, sometimes with a
    gap, repeated, or out of order"""
    ops = []
    nstreams = rng.choice([1, 2, 2])
    nev = rng.randint(0, max_ev)
    nsd = rng.randint(0, max_sd)
    keyof = [1, 1, 1] if rng.random() < 0.3 else [1, 2, 3]
    res_used = rng.randint(1, nres)
    nxt = {r: 0 for r in range(1, nres + 1)}
    todo = ["e"] * nev + ["s"] * nsd
    rng.shuffle(todo)
    for t in todo:
        if t == "e":
            ops.append({"op": "event", "d": rng.randint(1, nstreams)})
            if rng.random() < 0.2:      # the stream is re-described (configuration changed) between two of its events
                ops.append({"op": "redesc", "d": ops[-1]["d"]})
        else:
            r = rng.randint(1, res_used)
            ln = rng.choice([1, 1, 2, 3])
            u = rng.random()
            if u < 0.7:
                a = nxt[r]
            elif u < 0.82:
                a = nxt[r] + rng.randint(1, 2)          # gap
            elif u < 0.92:
                a = max(0, nxt[r] - ln)                 # repeated
            else:
                a = max(0, nxt[r] - ln - rng.randint(1, 2))   # earlier / overlapping
            a = min(a, 20)
            ops.append({"op": "stream_datum", "r": r, "a": a, "b": min(a + ln, 23)})
            nxt[r] = max(nxt[r], a + ln)
    if nstreams == 2 and not any(o["op"] == "event" and o["d"] == 2 for o in ops) and rng.random() < 0.5:
        ops.append({"op": "event", "d": 2})
    return ops, keyof
