CONSTANTS
  Skels = {1, 2, 3, 4, 5, 6, 7, 8, 9, 10, 11, 12, 13, 14, 15, 16, 17, 18}
SPECIFICATION Spec
INVARIANT S_TypeOK
INVARIANT S_AllowedIsSafe
INVARIANT S_InRangeFixed
INVARIANT S_OutOfRangeChanges
INVARIANT S_AsFoundOnlyKnown
POSTCONDITION DumpCases
