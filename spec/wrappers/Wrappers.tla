------------------------------ MODULE Wrappers ------------------------------
(***************************************************************************)
(* C22 -- finalize_wrapper, finalize_decorator, contingency_wrapper.       *)
(*                                                                         *)
(* REFERENCE SEMANTICS, written from the Python statement the wrappers     *)
(* document, not from their code:                                          *)
(*                                                                         *)
(*     try:            ret = yield from body                               *)
(*     except Exception as e:   (contingency_wrapper with an except_plan)  *)
(*                     r = yield from except_plan(e)                       *)
(*                     raise           if auto_raise   else   return r     *)
(*     else:           yield from else_plan()                              *)
(*     finally:        yield from final_plan()   -- unless the generator   *)
(*                     is being closed (GeneratorExit): no cleanup then    *)
(*     return ret                                                          *)
(*                                                                         *)
(* The wrapper sits between a driver (send/throw/close; the RunEngine) and *)
(* up to four delegate generators body/exc/els/fin that are environment    *)
(* processes (GenW.tla).  One interface event per step is appended to hist *)
(* (driver operation, delegate call with its reaction, outward reaction).  *)
(* The monitors in `mon` are computed from those events alone; the C22_*   *)
(* invariants are stated over the monitors.                                *)
(*                                                                         *)
(* Open finding KF-C22-1: as coded, GeneratorExit arriving while the       *)
(* wrapper is suspended in the except/else plan still runs the final plan. *)
(* Both the repaired step and the as-coded step are offered; only the      *)
(* as-coded one sets kf and is exempted from C22_NoCleanupOnClose.         *)
(***************************************************************************)
EXTENDS GenW, FiniteSets, TLC, Json

CONSTANTS Kinds,          \* subset of {"finalize_wrapper", "finalize_decorator", "contingency"}
          MaxOps,         \* bound on driver operations
          BodyMsgs,       \* max messages yielded by the wrapped plan
          HandlerMsgs,    \* max messages yielded by each of except/else/final plan
          Thrown,         \* exception classes the driver throws in
          InnerRaise,     \* exception classes delegates raise on their own
          CatchThrow,     \* BOOLEAN: delegates may handle a thrown exception (yield on / return / raise another)
          MisbehaveClose, \* BOOLEAN: delegates may yield or raise something else when closed
          AsCoded         \* BOOLEAN: offer the as-coded alternative at the KF-C22-1 point

Gens == {"body", "exc", "els", "fin"}
GIdx(g) == CASE g = "body" -> 1 [] g = "exc" -> 2 [] g = "els" -> 3 [] g = "fin" -> 4

Configs ==
    {[kind |-> k, hasX |-> FALSE, hasE |-> FALSE, hasF |-> TRUE, auto |-> TRUE] :
        k \in Kinds \cap {"finalize_wrapper", "finalize_decorator"}}
    \cup (IF "contingency" \in Kinds
          THEN {[kind |-> "contingency", hasX |-> x, hasE |-> e, hasF |-> f, auto |-> a] :
                   x \in BOOLEAN, e \in BOOLEAN, f \in BOOLEAN, a \in BOOLEAN} \ 
               {c \in [kind : {"contingency"}, hasX : {FALSE}, hasE : BOOLEAN, hasF : BOOLEAN, auto : {FALSE}] : TRUE}
          ELSE {})      \* auto_raise only matters with an except plan

VARIABLES
  cfg,      \* the wrapper and its optional plans
  ph,       \* "fresh" | delegate the wrapper is suspended in / running | "done"
  st,       \* delegate -> "fresh" | "susp" | "done"
  n,        \* delegate -> messages yielded so far
  todo,     \* what the wrapper does next: wait for the driver / call a delegate / react outward / end
  pend,     \* completion that continues after the finally clause
  retv,     \* value returned by the wrapped plan
  caught,   \* exception bound by `except Exception as e`
  closing,  \* the pending driver operation is close()
  mon,      \* monitors computed from the interface events
  kf,       \* the as-coded alternative of KF-C22-1 was taken
  nops,     \* driver operations so far
  hist      \* the interface events

vars == <<cfg, ph, st, n, todo, pend, retv, caught, closing, mon, kf, nops, hist>>
mcview == <<cfg, ph, st, n, todo, pend, retv, caught, closing, mon, kf, nops>>   \* VIEW for the large configs

T(t, g, op, a, r, v) == [t |-> t, g |-> g, op |-> op, a |-> a, r |-> r, v |-> v]
TWait == T("wait", "", "", None, "", None)
TEnd == T("end", "", "", None, "", None)
TCall(g, op, a) == T("call", g, op, a, "", None)
TOut(r, v) == T("out", "", "", None, r, v)

NoR == R("", None)
Mon0 == [started |-> FALSE, body |-> NoR, exc |-> NoR, els |-> NoR, fin |-> NoR,
         excN |-> 0, elsN |-> 0, finN |-> 0, excArg |-> None,
         gx |-> "", finAfterGx |-> 0, out |-> NoR]

Init == /\ cfg \in Configs
        /\ ph = "fresh"
        /\ st = [g \in Gens |-> "fresh"]
        /\ n = [g \in Gens |-> 0]
        /\ todo = TWait
        /\ pend = NoR /\ retv = None /\ caught = None
        /\ closing = FALSE
        /\ mon = Mon0
        /\ kf = FALSE
        /\ nops = 0
        /\ hist = <<>>

Log(e) == hist' = Append(hist, e)

----------------------------------------------------------------------------
(* The driver.  A fresh generator: send(None) starts it; throw(e) raises e at once and close() does nothing, *)
(* without running any code of the wrapper (so no delegate is touched).                                     *)
Drive(op, a) ==
    /\ todo.t = "wait" /\ nops < MaxOps
    /\ op \in {"send", "throw", "close"}
    /\ op = "throw" => IsExc(a) /\ a.c # "GenExit"
    /\ op = "send" => ~IsExc(a) /\ (ph = "fresh" => a = None)
    /\ op = "close" => a = None
    /\ nops' = nops + 1
    /\ Log(E("drv", op, a, "", None))
    /\ closing' = (op = "close")
    /\ IF ph = "fresh"
       THEN CASE op = "send"  -> /\ ph' = "body" /\ todo' = TCall("body", "send", None)
                                 /\ mon' = [mon EXCEPT !.started = TRUE]
              [] op = "throw" -> /\ ph' = ph /\ todo' = TOut("raise", a) /\ mon' = mon
              [] op = "close" -> /\ ph' = ph /\ todo' = TOut("closed", None) /\ mon' = mon
       ELSE /\ ph' = ph /\ todo' = TCall(ph, op, a) /\ mon' = mon
    /\ UNCHANGED <<cfg, st, n, pend, retv, caught, kf>>

----------------------------------------------------------------------------
(* try / except / else / finally.  A branch says where control goes next. *)
B(p, t, pd, rv, cg, k) == [ph |-> p, todo |-> t, pend |-> pd, retv |-> rv, caught |-> cg, kf |-> k]

\* the statement is left with completion p: that is what the generator does (close() turns GeneratorExit / a
\* normal return into "close() returned" for the closer)
Finish(p, rv, cg, k) ==
    B(ph, IF closing /\ (p.k = "return" \/ p.v.c = "GenExit") THEN TOut("closed", None) ELSE TOut(p.k, p.v), NoR, rv, cg, k)

\* enter the finally clause with completion p pending
EnterFin(p, rv, cg, k) ==
    IF cfg.hasF THEN B("fin", TCall("fin", "send", None), p, rv, cg, k) ELSE Finish(p, rv, cg, k)

\* an exception leaves the except / else clause
HandlerRaise(c) ==
    IF c.v.c = "GenExit" /\ cfg.hasF
    THEN {Finish(c, retv, caught, kf)}                                             \* closed: no cleanup (repaired)
         \cup (IF AsCoded THEN {EnterFin(c, retv, caught, TRUE)} ELSE {})           \* KF-C22-1: cleanup runs anyway
    ELSE {EnterFin(c, retv, caught, kf)}

After(g, c) ==
    CASE g = "body" /\ c.k = "return" ->
            IF cfg.hasE THEN {B("els", TCall("els", "send", None), pend, c.v, caught, kf)}
            ELSE {EnterFin(c, c.v, caught, kf)}
      [] g = "body" /\ c.k = "raise" ->
            IF c.v.c = "GenExit" THEN {Finish(c, retv, caught, kf)}               \* the exemption: closed, no cleanup
            ELSE IF cfg.hasX /\ IsException(c.v)
                 THEN {B("exc", TCall("exc", "send", c.v), pend, retv, c.v, kf)}  \* except_plan(e)
                 ELSE {EnterFin(c, retv, caught, kf)}
      [] g = "exc" /\ c.k = "return" ->
            {EnterFin(IF cfg.auto THEN R("raise", caught) ELSE R("return", c.v), retv, caught, kf)}
      [] g = "els" /\ c.k = "return" -> {EnterFin(R("return", retv), retv, caught, kf)}
      [] g \in {"exc", "els"} /\ c.k = "raise" -> HandlerRaise(c)
      [] g = "fin" /\ c.k = "return" -> {Finish(pend, retv, caught, kf)}
      [] g = "fin" /\ c.k = "raise" -> {Finish(c, retv, caught, kf)}

\* monitors: first resumption of a delegate, how each delegate ended, where GeneratorExit propagated
MonCall(g, a, r, c) ==
    LET first == st[g] = "fresh"
        m1 == IF first THEN CASE g = "exc" -> [mon EXCEPT !.excN = @ + 1, !.excArg = a]
                              [] g = "els" -> [mon EXCEPT !.elsN = @ + 1]
                              [] g = "fin" -> [mon EXCEPT !.finN = @ + 1,
                                                          !.finAfterGx = IF mon.gx # "" THEN @ + 1 ELSE @]
                              [] OTHER -> mon
              ELSE mon
        m2 == IF c.k # "yield" THEN [m1 EXCEPT ![g] = c] ELSE m1     \* how the delegation ended, as `yield from` sees it
    IN IF c.k = "raise" /\ c.v.c = "GenExit" /\ m2.gx = "" THEN [m2 EXCEPT !.gx = g] ELSE m2

Call(r) ==
    /\ todo.t = "call"
    /\ LET g == todo.g
           op == todo.op
           a == todo.a
           c == Completion(op, r)
       IN /\ LegalReaction(st[g], op, IF st[g] = "fresh" THEN None ELSE a, r)
          /\ Log(E(g, op, a, r.k, r.v))
          /\ st' = [st EXCEPT ![g] = IF r.k = "yield" THEN "susp" ELSE "done"]
          /\ n' = [n EXCEPT ![g] = IF r.k = "yield" THEN @ + 1 ELSE @]
          /\ mon' = MonCall(g, a, r, c)
          /\ IF c.k = "yield"
             THEN \* the wrapper yields the delegate's message; a generator that yields while being closed makes
                  \* close() raise RuntimeError at the closer
                  /\ todo' = IF closing THEN T("outx", "", "", None, "raise", RTE) ELSE TOut("yield", r.v)
                  /\ UNCHANGED <<ph, pend, retv, caught, kf>>
             ELSE \E b \in After(g, c) :
                      /\ ph' = b.ph /\ todo' = b.todo /\ pend' = b.pend
                      /\ retv' = b.retv /\ caught' = b.caught /\ kf' = b.kf
    /\ UNCHANGED <<cfg, closing, nops>>

\* "outx": the wrapper yielded while being closed; close() raises RuntimeError at the closer and the wrapper is
\* left suspended ("stuck"), it has not finished
Out ==
    /\ todo.t \in {"out", "outx"}
    /\ Log(E("out", "", None, todo.r, todo.v))
    /\ IF todo.t = "outx" THEN todo' = TEnd /\ ph' = "stuck" /\ mon' = mon
       ELSE IF todo.r = "yield" THEN todo' = TWait /\ ph' = ph /\ mon' = mon
       ELSE todo' = TEnd /\ ph' = "done" /\ mon' = [mon EXCEPT !.out = R(todo.r, todo.v)]
    /\ UNCHANGED <<cfg, st, n, pend, retv, caught, closing, kf, nops>>

----------------------------------------------------------------------------
(* bounded environment for model checking *)
NextMsg(g) == M("null", 0, GIdx(g) * 10 + n[g] + 1)
RetVal(g) == V("", 100 + GIdx(g))
MCReactions(g, op, a) ==
    LET lim == IF g = "body" THEN BodyMsgs ELSE HandlerMsgs
        y == IF n[g] < lim THEN {R("yield", NextMsg(g))} ELSE {}
        own == {R("raise", V(c, GIdx(g))) : c \in InnerRaise}
    IN CASE op = "send" -> y \cup {R("return", RetVal(g))} \cup own
         [] op = "throw" -> {R("raise", a)} \cup (IF CatchThrow THEN y \cup {R("return", RetVal(g))} \cup own ELSE {})
         [] op = "close" -> {R("raise", GenExit)} \cup (IF MisbehaveClose THEN y \cup own ELSE {})

MCDrive == \/ Drive("send", IF ph = "fresh" THEN None ELSE V("", 200 + nops))
           \/ \E c \in Thrown : Drive("throw", V(c, nops + 1))
           \/ Drive("close", None)

Next == \/ MCDrive
        \/ (todo.t = "call" /\ \E r \in MCReactions(todo.g, todo.op, todo.a) : Call(r))
        \/ Out

Spec == Init /\ [][Next]_vars

----------------------------------------------------------------------------
(* C22, in the vocabulary of the statement; all over `mon` (= over the interface events). *)
Done == ph = "done"
Ended(g) == mon[g].k # ""

\* the cleanup plan is never started twice
C22_CleanupAtMostOnce == mon.finN <= 1

\* cleanup runs exactly once after the wrapped plan however it ends (return, exception, stop/abort) ...
C22_CleanupAfterEveryExit ==
    (Done /\ mon.started /\ mon.gx = "" /\ cfg.hasF) => mon.finN = 1
\* ... it runs after the wrapped plan (and after the except/else plan), never before
C22_CleanupLast ==
    mon.finN = 1 => /\ Ended("body")
                    /\ mon.excN = 1 => Ended("exc")
                    /\ mon.elsN = 1 => Ended("els")
\* ... and not when the plan is closed: once GeneratorExit has left the wrapped / except / else plan no cleanup starts
C22_NoCleanupOnClose == (mon.gx \in {"body", "exc", "els"}) => (mon.finAfterGx = 0 \/ kf)
\* (without the exemption: must FAIL while the as-coded alternative exists -- used to show the finding is reachable)
C22_NoCleanupOnClose_Strict == (mon.gx \in {"body", "exc", "els"}) => mon.finAfterGx = 0
\* a wrapper that was never started runs nothing
C22_NotStartedNothingRuns == ~mon.started => mon.finN = 0 /\ mon.excN = 0 /\ mon.elsN = 0 /\ ~Ended("body")

\* except plan: exactly when the wrapped plan raised an Exception (not GeneratorExit / BaseException-only), with it
C22_ExceptWhenPythonWould ==
    /\ mon.excN <= 1
    /\ mon.excN = 1 => /\ cfg.hasX /\ mon.body.k = "raise" /\ IsException(mon.body.v) /\ mon.excArg = mon.body.v
    /\ (cfg.hasX /\ mon.body.k = "raise" /\ IsException(mon.body.v) /\ (Done \/ mon.finN = 1)) => mon.excN = 1
\* else plan: exactly when the wrapped plan returned
C22_ElseWhenPythonWould ==
    /\ mon.elsN <= 1
    /\ mon.elsN = 1 => cfg.hasE /\ mon.body.k = "return"
    /\ (cfg.hasE /\ mon.body.k = "return" /\ (Done \/ mon.finN = 1)) => mon.elsN = 1

\* the outcome Python prescribes, derived from how the delegates ended
ExpectedOutcome ==
    CASE mon.fin.k = "raise" -> mon.fin
      [] mon.exc.k = "raise" -> mon.exc
      [] mon.els.k = "raise" -> mon.els
      [] mon.body.k = "return" -> mon.body
      [] mon.body.k = "raise" /\ mon.excN = 1 /\ ~cfg.auto -> mon.exc        \* the except plan's value is returned
      [] OTHER -> mon.body                                                   \* the same exception object
C22_OutcomePreserved ==
    (Done /\ mon.started /\ mon.gx = "" /\ mon.out.k \in {"return", "raise"}) => mon.out = ExpectedOutcome
\* a closed wrapper ends quietly (close() returns) unless a delegate misbehaved on close or the finding applies
C22_CloseIsQuiet ==
    (Done /\ mon.gx # "" /\ ~kf /\ mon.finAfterGx = 0) => mon.out.k = "closed"

TypeOK == /\ ph \in {"fresh", "done", "stuck"} \cup Gens
          /\ todo.t \in {"wait", "call", "out", "outx", "end"}
          /\ nops \in 0..MaxOps

----------------------------------------------------------------------------
(* replay generation: print every maximal history (CONSTRAINT, workers = 1) *)
Terminal == todo.t = "end" \/ (todo.t = "wait" /\ nops = MaxOps)
DumpHist == Terminal => PrintT(<<"HIST", ToJson([cfg |-> cfg, kf |-> kf, h |-> hist])>>)
=============================================================================
