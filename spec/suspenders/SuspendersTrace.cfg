CONSTANTS
  VNeg = 8
  VMax = 8
  MaxLen = 1000
  MaxIdle = 1000
  AllowKF = TRUE
  Classes = {"BoolHigh", "BoolLow", "Floor", "Ceil", "WhenOutsideBand", "OutBand", "WhenChanged"}
SPECIFICATION TraceSpec
INVARIANT C30_Exclusive
INVARIANT C30_ExplicitHonoured
INVARIANT C30_DefaultsAsDocumented
INVARIANT C30_TrippedIffLastDecision
INVARIANT C30_TrippedDocumented
INVARIANT C30_PendingIffTripped
PROPERTY C30_ReleaseOnlyOnResume
PROPERTY C30_ResumeThreshold
PROPERTY C30_ReleaseWhenResume
PROPERTY C30_RequestOnTrip
POSTCONDITION TraceAccepted
