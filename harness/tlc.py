"""Run TLC / parse its output; parse TLA+ values (for counterexamples,
-simulate behaviour files and -dump files).

Everything TLC writes goes under /verif/out/tlc/<tag>-<pid>-<n>/ and is removed
after the run unless keep=True.
"""
from __future__ import annotations

import itertools
import json
import os
import re
import shutil
import subprocess
import time
from dataclasses import dataclass, field
from pathlib import Path

ROOT = Path(__file__).resolve().parent.parent
SPEC = ROOT / "spec"
from harness.core import OUT  # noqa: E402  (scratch runs keep their output apart)
JAR = "/opt/veriftools/tla/tla2tools.jar"
DEPS = "/opt/veriftools/tla/CommunityModules-deps.jar"

_ctr = itertools.count()


class TLCError(RuntimeError):
    """machinery failure (parse error, crash, timeout) -- never a verdict"""


@dataclass
class TLCResult:
    ok: bool                     # finished with no violation
    violated: str | None         # name of violated invariant/property (or 'deadlock', 'assert', 'postcondition')
    kind: str | None             # 'invariant' | 'action' | 'temporal' | 'deadlock' | 'assert' | 'postcondition'
    generated: int = 0
    distinct: int = 0
    depth: int = 0
    trace: list = field(default_factory=list)   # list of (action_label, {var: value}) of a counterexample
    stdout: str = ""
    wall_s: float = 0.0
    coverage: dict = field(default_factory=dict)  # action name -> (distinct, total)
    timed_out: bool = False
    workdir: str = ""


# --------------------------------------------------------------------------
# TLA+ value parser (output syntax of TLC)
# --------------------------------------------------------------------------

class _P:
    def __init__(self, s):
        self.s = s
        self.i = 0

    def ws(self):
        s = self.s
        while self.i < len(s) and s[self.i] in " \t\r\n":
            self.i += 1

    def peek(self, n=1):
        return self.s[self.i:self.i + n]

    def eat(self, tok):
        self.ws()
        if not self.s.startswith(tok, self.i):
            raise ValueError(f"expected {tok!r} at {self.i}: {self.s[self.i:self.i+40]!r}")
        self.i += len(tok)

    def value(self):
        self.ws()
        s = self.s
        c = s[self.i]
        if c == '"':
            j = self.i + 1
            out = []
            while s[j] != '"':
                if s[j] == "\\":
                    j += 1
                    out.append({"n": "\n", "t": "\t"}.get(s[j], s[j]))
                else:
                    out.append(s[j])
                j += 1
            self.i = j + 1
            return "".join(out)
        if s.startswith("<<", self.i):
            self.i += 2
            items = self.items(">>")
            return tuple(items)
        if c == "{":
            self.i += 1
            items = self.items("}")
            return TSet(items)
        if c == "[":
            self.i += 1
            self.ws()
            if self.peek() == "]":
                self.i += 1
                return {}
            # record [a |-> v, ...]  or function (k :> v @@ ...) printed as [k |-> v]?  TLC prints
            # functions with non-string domain as (k :> v @@ k2 :> v2)
            d = {}
            while True:
                self.ws()
                m = re.compile(r"[A-Za-z_][A-Za-z0-9_]*").match(s, self.i)
                if not m:
                    raise ValueError(f"bad record field at {self.i}: {s[self.i:self.i+40]!r}")
                k = m.group(0)
                self.i = m.end()
                self.eat("|->")
                d[k] = self.value()
                self.ws()
                if self.peek() == ",":
                    self.i += 1
                    continue
                self.eat("]")
                return d
        if c == "(":
            # function: (k :> v @@ k :> v)
            self.i += 1
            d = TFun()
            while True:
                k = self.value()
                self.eat(":>")
                v = self.value()
                d[k] = v
                self.ws()
                if s.startswith("@@", self.i):
                    self.i += 2
                    continue
                self.eat(")")
                return d
        m = re.compile(r"-?\d+").match(s, self.i)
        if m:
            self.i = m.end()
            v = int(m.group(0))
            # interval a..b
            self.ws()
            if s.startswith("..", self.i):
                self.i += 2
                self.ws()
                m2 = re.compile(r"-?\d+").match(s, self.i)
                self.i = m2.end()
                return TSet(range(v, int(m2.group(0)) + 1))
            return v
        m = re.compile(r"[A-Za-z_][A-Za-z0-9_]*").match(s, self.i)
        if m:
            self.i = m.end()
            w = m.group(0)
            if w == "TRUE":
                return True
            if w == "FALSE":
                return False
            return ModelValue(w)
        raise ValueError(f"cannot parse value at {self.i}: {s[self.i:self.i+40]!r}")

    def items(self, close):
        out = []
        self.ws()
        if self.s.startswith(close, self.i):
            self.i += len(close)
            return out
        while True:
            out.append(self.value())
            self.ws()
            if self.peek() == ",":
                self.i += 1
                continue
            self.eat(close)
            return out


class ModelValue(str):
    def __repr__(self):
        return f"MV({str.__repr__(self)})"


class TSet(frozenset):
    def __repr__(self):
        return "TSet(" + repr(sorted(self, key=repr)) + ")"


class TFun(dict):
    """TLA+ function with non-string domain.  Hashable by content."""

    def __hash__(self):
        return hash(frozenset(self.items()))


def parse_value(text: str):
    p = _P(text)
    v = p.value()
    p.ws()
    if p.i != len(p.s):
        raise ValueError(f"trailing text after value: {p.s[p.i:p.i+40]!r}")
    return v


def tojson(v):
    """TLA value -> JSON-able python (tuples->lists, sets->sorted lists, TFun->list of pairs)."""
    if isinstance(v, TFun):
        return {"__fun__": [[tojson(k), tojson(x)] for k, x in v.items()]}
    if isinstance(v, dict):
        return {k: tojson(x) for k, x in v.items()}
    if isinstance(v, (tuple, list)):
        return [tojson(x) for x in v]
    if isinstance(v, frozenset):
        return sorted((tojson(x) for x in v), key=lambda x: json.dumps(x, sort_keys=True))
    return v


_STATE_HDR = re.compile(r"^State (\d+): <(.*?)>\s*$|^State (\d+): (Stuttering)\s*$")
_VAR_LINE = re.compile(r"^/\\ ([A-Za-z_][A-Za-z0-9_]*) = ")


def parse_state_block(lines):
    """lines of '/\\ x = v' possibly spanning multiple lines -> dict"""
    out = {}
    cur = None
    buf = []
    for ln in lines:
        m = _VAR_LINE.match(ln)
        if m:
            if cur is not None:
                out[cur] = parse_value("\n".join(buf))
            cur = m.group(1)
            buf = [ln[m.end():]]
        elif cur is not None:
            buf.append(ln)
    if cur is not None:
        out[cur] = parse_value("\n".join(buf))
    return out


def parse_trace(stdout: str):
    """Counterexample printed by TLC -> list of (label, state dict)."""
    lines = stdout.splitlines()
    trace = []
    i = 0
    n = len(lines)
    while i < n:
        m = _STATE_HDR.match(lines[i])
        if m:
            label = m.group(2) or m.group(4) or ""
            label = label.split(" line ")[0].strip()
            j = i + 1
            blk = []
            while j < n and lines[j].strip() != "" and not _STATE_HDR.match(lines[j]):
                blk.append(lines[j])
                j += 1
            try:
                st = parse_state_block(blk)
            except Exception:
                st = {"__raw__": "\n".join(blk)}
            trace.append((label, st))
            i = j
        else:
            i += 1
    return trace


def parse_simulate_file(path):
    """File written by `-simulate file=...`: returns list of (action_label, state dict)."""
    txt = Path(path).read_text()
    out = []
    # blocks:  \* <Action line ...>\nSTATE_n == \n/\ v = ...\n\n
    parts = re.split(r"^STATE_\d+ ==\s*$", txt, flags=re.M)
    # labels precede each STATE_ header: find them in order
    labels = re.findall(r"^\\\* <?(.*?)>?\s*\nSTATE_\d+ ==", txt, flags=re.M)
    for k, body in enumerate(parts[1:]):
        blk = []
        for ln in body.splitlines():
            if ln.startswith("\\*") or ln.startswith("===="):
                break
            if ln.strip() == "" and blk:
                break
            if ln.strip():
                blk.append(ln)
        label = labels[k] if k < len(labels) else ""
        label = label.split(" line ")[0].strip()
        out.append((label, parse_state_block(blk)))
    return out


def parse_dump(path):
    """`-dump file` (plain) -> list of state dicts."""
    txt = Path(path).read_text()
    out = []
    for blk in re.split(r"^State \d+:\s*$", txt, flags=re.M)[1:]:
        lines = [ln for ln in blk.splitlines() if ln.strip()]
        out.append(parse_state_block(lines))
    return out


# --------------------------------------------------------------------------
# running TLC
# --------------------------------------------------------------------------

_RE_STATES = re.compile(r"(\d+) states generated, (\d+) distinct states found")
_RE_DEPTH = re.compile(r"The depth of the complete state graph search is (\d+)")
_RE_INV = re.compile(r"Invariant (\S+) is violated")
_RE_ACT = re.compile(r"Action property (\S+) is violated")
_RE_COV = re.compile(r"^<(\w+) line \d+, col \d+ to line \d+, col \d+ of module (\w+)>: (\d+):(\d+)", re.M)


def run_tlc(module: str, cfg: str | None = None, *, spec_dir: Path | str = SPEC, workers: int | str = "auto",
            simulate: str | None = None, depth: int | None = None, seed: int | None = None,
            dump: bool = False, coverage: bool = False, deadlock: bool = False, env: dict | None = None,
            timeout: float = 600, keep: bool = False, tag: str = "tlc", dfs: bool = False,
            extra: list[str] | None = None, java_opts: list[str] | None = None,
            allow_timeout: bool = False) -> TLCResult:
    """Run TLC on spec_dir/module.tla with spec_dir/cfg (default module.cfg).

    deadlock=False passes -deadlock (i.e. deadlock checking OFF).
    simulate: e.g. "num=1000" or "file=/path/prefix,num=100".
    """
    spec_dir = Path(spec_dir)
    work = OUT / "tlc" / f"{tag}-{os.getpid()}-{next(_ctr)}"
    if work.exists():
        shutil.rmtree(work)
    work.mkdir(parents=True)
    cfgp = spec_dir / (cfg or module + ".cfg")
    if workers == "auto":
        workers = 1 if simulate and "file=" in (simulate or "") else int(os.environ.get("VERIF_TLC_WORKERS", min(16, os.cpu_count() or 4)))
    cmd = ["java", "-XX:+UseParallelGC"]
    if dfs:
        cmd.append("-Dtlc2.tool.queue.IStateQueue=StateDeque")
    cmd += java_opts or []
    if str(workers) == "1" and not java_opts:
        # short single-worker runs (trace validation, replay generation): C1 only + 2 GC threads is ~2x faster
        cmd += ["-XX:TieredStopAtLevel=1", "-XX:ParallelGCThreads=2"]
    cmd += ["-cp", f"{JAR}:{DEPS}", "tlc2.TLC", "-metadir", str(work / "meta"), "-noGenerateSpecTE",
            "-config", str(cfgp)]
    if workers == "auto":
        workers = 1 if simulate and "file=" in (simulate or "") else int(os.environ.get("VERIF_TLC_WORKERS", min(16, os.cpu_count() or 4)))
    cmd += ["-workers", str(workers)]
    if not deadlock:
        cmd.append("-deadlock")
    if simulate is not None:
        cmd += ["-simulate", simulate]
    if depth is not None:
        cmd += ["-depth", str(depth)]
    if seed is not None:
        cmd += ["-seed", str(seed)]
    if coverage:
        cmd += ["-coverage", "1"]
    dump_path = None
    if dump:
        dump_path = work / "dump"
        cmd += ["-dump", str(dump_path)]
    cmd += extra or []
    cmd.append(str(spec_dir / (module + ".tla")))
    e = dict(os.environ)
    e.pop("JAVA_TOOL_OPTIONS", None)
    if env:
        e.update({k: str(v) for k, v in env.items()})
    t0 = time.time()
    timed_out = False
    try:
        p = subprocess.run(cmd, cwd=str(spec_dir), env=e, capture_output=True, text=True, timeout=timeout)
        out = p.stdout + ("\n" + p.stderr if p.stderr.strip() else "")
        rc = p.returncode
    except subprocess.TimeoutExpired as ex:
        timed_out = True
        out = (ex.stdout or b"").decode() if isinstance(ex.stdout, bytes) else (ex.stdout or "")
        rc = -9
        subprocess.run(["pkill", "-f", str(work / "meta")], capture_output=True)
    wall = time.time() - t0
    res = TLCResult(ok=False, violated=None, kind=None, stdout=out, wall_s=wall, timed_out=timed_out,
                    workdir=str(work))
    for m in _RE_STATES.finditer(out):
        res.generated, res.distinct = int(m.group(1)), int(m.group(2))
    m = _RE_DEPTH.search(out)
    if m:
        res.depth = int(m.group(1))
    if simulate is not None and not res.generated:
        m2 = re.search(r"(\d+) states checked", out)
        if m2:
            res.generated = int(m2.group(1))
    for m in _RE_COV.finditer(out):
        name = m.group(1)
        a, b = int(m.group(3)), int(m.group(4))
        pa, pb = res.coverage.get(name, (0, 0))
        res.coverage[name] = (pa + a, pb + b)
    if timed_out:
        if allow_timeout:
            res.ok = True
            _cleanup(work, keep)
            return res
        _cleanup(work, keep)
        raise TLCError(f"TLC timed out after {timeout}s: {' '.join(cmd)}")
    m = _RE_INV.search(out)
    if m:
        res.violated, res.kind = m.group(1), "invariant"
    else:
        m = _RE_ACT.search(out)
        if m:
            res.violated, res.kind = m.group(1), "action"
        elif "Temporal properties were violated" in out:
            res.violated, res.kind = "temporal", "temporal"
        elif "Deadlock reached" in out:
            res.violated, res.kind = "deadlock", "deadlock"
        elif re.search(r"Postcondition \S+ .*is false", out) or (re.search(r"Postcondition|POSTCONDITION", out) and "violated" in out):
            res.violated, res.kind = "postcondition", "postcondition"
        elif "The first argument of Assert evaluated to FALSE" in out:
            res.violated, res.kind = "assert", "assert"
    if res.violated:
        res.trace = parse_trace(out)
    elif "Model checking completed. No error has been found" in out or (
            simulate is not None and rc == 0) or ("Finished in" in out and rc == 0 and "Error:" not in out):
        res.ok = True
    else:
        _cleanup(work, True)
        raise TLCError(f"TLC failed (rc={rc}) for {module}/{cfgp.name}:\n{_errtail(out)}")
    if dump_path is not None:
        res.dump_path = str(dump_path) + ".dump" if Path(str(dump_path) + ".dump").exists() else str(dump_path)
    if not keep and dump_path is None and not (simulate and "file=" in simulate):
        _cleanup(work, keep)
    return res


def _errtail(out):
    i = out.find("Error:")
    return out[i:i + 2500] if i >= 0 else out[-2500:]


def _cleanup(work, keep):
    if not keep:
        shutil.rmtree(work, ignore_errors=True)


def cleanup(res: TLCResult):
    if res.workdir:
        shutil.rmtree(res.workdir, ignore_errors=True)


def sany(module_path: Path) -> tuple[bool, str]:
    p = subprocess.run(["java", "-cp", f"{JAR}:{DEPS}", "tla2sany.SANY", str(module_path)],
                       cwd=str(module_path.parent), capture_output=True, text=True)
    ok = p.returncode == 0 and "Semantic errors" not in p.stdout and "Parsing or semantic analysis failed" not in p.stdout \
        and "Could not parse" not in p.stdout and "***Parse Error***" not in p.stdout
    return ok, p.stdout + p.stderr


def tla_lit(v):
    """python value -> TLA+ literal usable in a cfg file (ints, bools, strings, sets/lists of those)"""
    if isinstance(v, bool):
        return "TRUE" if v else "FALSE"
    if isinstance(v, int):
        return str(v)
    if isinstance(v, str):
        return '"' + v + '"'
    if isinstance(v, (set, frozenset, list, tuple)):
        return "{" + ", ".join(tla_lit(x) for x in (sorted(v) if isinstance(v, (set, frozenset)) else v)) + "}"
    raise TypeError(v)


def write_cfg(path, constants: dict, spec="Spec", invariants=(), properties=(), constraints=(), action_constraints=(),
              postcondition=None, view=None, raw=()):
    lines = ["CONSTANTS"]
    for k, v in constants.items():
        lines.append(f"  {k} = {tla_lit(v)}" if not (isinstance(v, str) and v.startswith("<-")) else f"  {k} {v}")
    lines.append(f"SPECIFICATION {spec}")
    lines += [f"INVARIANT {i}" for i in invariants]
    lines += [f"PROPERTY {p}" for p in properties]
    lines += [f"CONSTRAINT {c}" for c in constraints]
    lines += [f"ACTION_CONSTRAINT {c}" for c in action_constraints]
    if postcondition:
        lines.append(f"POSTCONDITION {postcondition}")
    if view:
        lines.append(f"VIEW {view}")
    lines += list(raw)
    Path(path).write_text("\n".join(lines) + "\n")
    return str(path)
