--------------------------- MODULE StreamDatumTrace ---------------------------
(* Results recorded from the real concatenate_stream_datums and from real       *)
(* consolidators (ConsolidatorBase, HDF5, CSV, TIFF) on random inputs larger    *)
(* than the TLC domain, one record per line:                                    *)
(*   kind "concat": docs (flat datums), acc (accepted), out (flat result)       *)
(*   kind "cons":   par, docs consumed, raised ("" or the attribute that        *)
(*                  raised), shape, chunks, map (pairs seq_num, row)            *)
(* Each record must equal what StreamDatum.tla specifies (T_*Conforms) and the  *)
(* recorded values themselves must satisfy the property's predicates.  At the   *)
(* open finding (scalar datum, concat, join_chunks = FALSE) the as-found        *)
(* IndexError is accepted and printed; a repaired tree may advertise any valid  *)
(* chunking there.                                                              *)
EXTENDS StreamDatum

Cases == ndJsonDeserialize(IOEnv.TRACE_FILE)
VARIABLES cid, obs
tvars == <<vars, cid, obs>>

Unflat(f) == [desc |-> f[1], res |-> f[2], i0 |-> f[3], i1 |-> f[4], s0 |-> f[5], s1 |-> f[6]]
AsSet(s) == {s[i] : i \in 1..Len(s)}

TraceInit == \E k \in 1..Len(Cases) :
                /\ cid = k
                /\ obs = Cases[k]
                /\ part = Cases[k].kind
                /\ par = Cases[k].par
                /\ docs = [i \in 1..Len(Cases[k].docs) |-> Unflat(Cases[k].docs[i])]
                /\ sel = <<>>
TraceSpec == TraceInit /\ [][UNCHANGED tvars]_tvars

IsConcat == part = "concat"
IsCons == part = "cons"
Returned == IsCons /\ obs.raised = ""

T_ConcatConforms ==
    IsConcat => /\ obs.acc = Accepts(docs)
                /\ (obs.acc /\ Len(docs) > 1) => obs.out = Flat(Combined(docs))
                /\ Len(docs) = 1 => obs.out = Flat(docs[1])
T_ConcatCoversParts ==
    (IsConcat /\ obs.acc) =>
        /\ Idx(Unflat(obs.out)) = UNION {Idx(docs[k]) : k \in 1..Len(docs)}
        /\ Seqs(Unflat(obs.out)) = UNION {Seqs(docs[k]) : k \in 1..Len(docs)}
        /\ \A k \in 1..Len(docs) : obs.out[1] = docs[k].desc /\ obs.out[2] = docs[k].res

T_Returns == (IsCons /\ obs.raised # "") =>
                 (KF_ScalarPerDatum(par) /\ obs.raised = "chunks" /\ PrintT(<<"KF", cid, "scalar-perdatum">>))
T_ConsConforms ==
    Returned => /\ obs.shape = Shape(par, Rows(docs))
                /\ AsSet(obs.map) = SeqMap(docs)
                /\ (KF_ScalarPerDatum(par) \/ obs.chunks = Chunks(par, Rows(docs)))
T_ChunksTile == Returned => ChunksTile(obs.shape, obs.chunks)
T_ChunkSizeRespected == Returned => ChunkSizeRespected(par, obs.chunks)
T_SeqMapTotal == IsCons => SeqMapTotal(docs, AsSet(obs.map)) /\ Len(obs.map) = Cardinality(AsSet(obs.map))
T_JoinShape == Returned => JoinShape(par, obs.shape, Rows(docs))
AllSeen == TLCGet("stats").distinct = Len(Cases)
=============================================================================
