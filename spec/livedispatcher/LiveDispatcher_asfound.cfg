CONSTANTS
  Streams = {"primary", "baseline"}
  Keys = {"primary"}
  MaxEvents = 3
  MaxFree = 3
  MaxDesc = 2
  MaxRuns = 1
  Keyings = {"default", "byname"}
  NameBys = {"raw"}
  Choice = "asfound"
SPECIFICATION Spec
INVARIANT C39_SeqPerStream_Strict
INVARIANT C39_NumEvents_Strict
