"""C19 -- callbacks see every document once, in order; errors follow the policy.

spec/dispatcher/DispatcherErr.tla models the ordered callback registry (invocation order = subscription order, name
filtering), the documents a small plan makes the RunEngine emit, callbacks raising at any document index, the
ignore / propagate policy and the effect on the plan (exception thrown into the plan at that message; unhandled =>
runs closed 'fail', the call raises it).  TLC checks the statement's invariants for every scenario of the bounded
domain (3 callbacks, all subscription names, raise at any index, both policies, plan lets the exception go / catches
it), once for the registry as found and once for the repaired registry; every scenario of the replay domain is
executed on a real RunEngine and compared event by event; random larger scenarios (up to 5 callbacks, several runs,
several raising indices) executed on the RunEngine are validated by TLC (DispatcherErrTrace, batch scheme).
"""
import json
import logging
import random
import re

from harness.tlc import run_tlc, SPEC
from harness.tracecheck import validate_traces

SD = SPEC / "dispatcher"
DESIGN_REF = "DESIGN.md section 7 (C19)"
# short TLC runs are dominated by JVM warm-up: C1-only JIT and two GC threads halve their cost (not used for the big thorough runs)
FAST = ["-XX:TieredStopAtLevel=1", "-XX:ParallelGCThreads=2"]
FAST_ENV = {"JDK_JAVA_OPTIONS": " ".join(FAST)}
INVS = ["TypeOK", "C19_OnceInOrder", "C19_InvocationOrder", "C19_IgnoreDeliversAll", "C19_PropagateDelivers",
        "C19_IgnoreDoesNotStopPlan", "C19_PropagateEndsPlan", "C19_RunClosedFail"]
ALL_NAMES = ["all", "start", "descriptor", "event", "stop"]
KF_SIG = "stop-delivery-aborted:propagate:callback-raised-on-stop"


class CbError(Exception):
    def __init__(self, k):
        super().__init__(f"callback {k} raises")
        self.k = k


class Det:
    """minimal Readable (bluesky.protocols.Readable + configuration)"""
    name = "det"
    parent = None

    def read(self):
        return {"det": {"value": 1, "timestamp": 0.0}}

    def describe(self):
        return {"det": {"source": "verif", "dtype": "number", "shape": []}}

    def read_configuration(self):
        return {}

    def describe_configuration(self):
        return {}


def ev(op, idx=0, kind="", status="", calls=None, msg=0, who=0, how=""):
    return {"op": op, "idx": idx, "kind": kind, "status": status, "calls": calls if calls is not None else [], "msg": msg,
            "who": who, "how": how}


FOLLOWUP_CMDS = ["open_run", "create", "read", "save", "close_run"]


def execute(cfg, followup=False):
    """Run scenario cfg = {names, raise (lists of document indices), ignore, catch, cmds} on a real RunEngine.
    Returns the observed events in the vocabulary of DispatcherErr.tla.
    followup: afterwards the same callback functions are unsubscribed and subscribed again (what the next RE(plan, subs) call
    does with per-call subscriptions) while the exception the first call raised is still referenced by the caller (as an
    interactive session does: sys.last_value), and a second, fault-free call is made; returns (events, (cfg2, events2))."""
    from bluesky import Msg
    from harness.props.C18 import fresh_re
    RE = fresh_re()
    RE.ignore_callback_exceptions = bool(cfg["ignore"])
    det = Det()
    st = {"n": 0, "msg": 0, "name": None, "doc": None}
    events = []

    def observer(name, doc):        # subscribed first: defines "the documents emitted" (index, kind, exit_status)
        st["n"] += 1
        st["name"], st["doc"] = name, doc
        events.append(ev("emit", st["n"], name, doc.get("exit_status", "") if name == "stop" else "", [], st["msg"]))

    RE.subscribe(observer)
    excs = {}

    def mk(k, raises):
        def cb(name, doc):
            if not events or events[-1]["op"] != "emit":
                events.append(ev("emit", 0, name, "", [], st["msg"]))
            same = name == st["name"] and doc == st["doc"]
            events[-1]["calls"].append(k if same else -k)       # a different document than the one emitted: mismatch
            if st["n"] in raises and st.get("armed", True):
                e = CbError(k)
                excs[id(e)] = e
                raise e
        cb.__name__ = f"cb{k}"
        return cb

    fns, toks = [], []
    for k, nm in enumerate(cfg["names"], 1):
        fns.append(mk(k, set(cfg["raise"][k - 1])))
        toks.append(RE.subscribe(fns[-1], nm))
    kept = []       # exceptions the caller keeps (their tracebacks reference the frames the callbacks were called from)

    def plan(cmds=None):
        try:
            for i, c in enumerate(cmds or cfg["cmds"], 1):
                st["msg"] = i
                try:
                    if c == "read":
                        yield Msg("read", det)
                    elif c == "create":
                        yield Msg("create", name="primary")
                    else:
                        yield Msg(c)
                except Exception as ex:
                    events.append(ev("plan_exc", msg=i, who=ex.k if isinstance(ex, CbError) and id(ex) in excs else -1))
                    if cfg["catch"]:
                        return
                    raise
        finally:
            st["msg"] = 0

    try:
        RE(plan())
        events.append(ev("end", how="ret"))
    except CbError as ex:
        kept.append(ex)
        events.append(ev("end", how="raise", who=ex.k if id(ex) in excs else -1))
    except Exception as ex:     # noqa
        kept.append(ex)
        events.append(ev("end", how="raise", who=-1))
        events[-1]["_exc"] = repr(ex)
    if RE.state != "idle":
        events.append(ev("end", how=f"state={RE.state}", who=-1))
    if not followup:
        return events
    first = list(events)
    cfg2 = dict(cfg, cmds=list(FOLLOWUP_CMDS), catch=False)
    cfg2["raise"] = [[] for _ in cfg["names"]]
    if RE.state != "idle":
        return first, None
    for t in toks:
        RE.unsubscribe(t)
    for fn, nm in zip(fns, cfg["names"]):
        RE.subscribe(fn, nm)
    del events[:]
    st.update(n=0, msg=0, name=None, doc=None, armed=False)
    try:
        RE(plan(FOLLOWUP_CMDS))
        events.append(ev("end", how="ret"))
    except Exception as ex:     # noqa
        events.append(ev("end", how="raise", who=-1))
        events[-1]["_exc"] = repr(ex)
    del kept[:]
    return first, (cfg2, list(events))


def cfg_key(c):
    return (tuple(c["names"]), tuple(tuple(r) for r in c["raise"]), bool(c["ignore"]), bool(c["catch"]), tuple(c["cmds"]))


def strip(evs):
    return [{k: e[k] for k in ("op", "idx", "kind", "status", "calls", "msg", "who", "how")} for e in evs]


def nontrivial(c):
    return any(c["raise"]) and len(c["names"]) >= 2


def gen_histories(ctx, cfgname):
    """all terminal histories of the model for the replay domain, for the registry as found and repaired (one TLC run,
    which also checks every invariant on that domain)"""
    out = {}
    res = run_tlc("DispatcherErr", cfgname, spec_dir=SD, tag="C19r", timeout=3000, java_opts=FAST if ctx.quick else None)      # (PrintT lines are atomic)
    ctx.add_tlc(res, f"DispatcherErr exhaustive + replay generation {cfgname}")
    if not res.ok:
        st = res.trace[-1][1] if res.trace else {}
        ctx.violation(f"spec:{res.violated}:{cfgname}:deliverAll={st.get('deliverAll')}",
                      f"DispatcherErr.tla {res.kind} {res.violated} violated for scenario {st.get('cfg')}: {st.get('hist')}",
                      {"cfg": str(st.get("cfg")), "hist": str(st.get("hist"))})
        return None
    for m in re.finditer(r'<<"HIST", "((?:[^"\\]|\\.)*)">>', res.stdout):
        h = json.loads(json.loads('"' + m.group(1) + '"'))
        out.setdefault(cfg_key(h["cfg"]), {"cfg": h["cfg"]})[h["da"]] = h
    return out


def random_cfg(rng):
    ncb = rng.randint(1, 5)
    cmds = []
    nruns = rng.randint(1, 3)
    for r in range(nruns):
        cmds.append("open_run")
        for _ in range(rng.choice([0, 1, 1, 2, 3])):
            cmds += ["create", "read", "save"]
        if r < nruns - 1 or rng.random() < 0.85:
            cmds.append("close_run")
    ndocs = sum({"open_run": 1, "close_run": 1}.get(c, 0) for c in cmds) + cmds.count("save") + nruns  # upper bound
    raises = []
    for _ in range(ncb):
        k = rng.choice([0, 0, 1, 1, 2, 3])
        raises.append(sorted(rng.sample(range(1, ndocs + 2), min(k, ndocs + 1))))
    return {"names": [rng.choice(ALL_NAMES + ["all"]) for _ in range(ncb)], "raise": raises,
            "ignore": rng.random() < 0.4, "catch": rng.random() < 0.3, "cmds": cmds}


def run(ctx):
    logging.getLogger("bluesky").setLevel(logging.CRITICAL + 10)
    # 1. exhaustive model checking of the design (domains: Init in DispatcherErr.tla).  quick: registry as found (finding
    #    exempted) on the quick / thorough domain.  The replay domain of step 2 is checked for both registries (as found and
    #    repaired; `DispatcherErr_repaired.cfg` = the quick domain for the repaired registry, for manual use).
    for cfgname in (["DispatcherErr_quick.cfg"] if ctx.quick else ["DispatcherErr_thorough.cfg"]):
        res = run_tlc("DispatcherErr", cfgname, spec_dir=SD, tag="C19", timeout=3000)
        ctx.add_tlc(res, f"DispatcherErr exhaustive {cfgname}")
        if not res.ok:
            st = res.trace[-1][1] if res.trace else {}
            ctx.violation(f"spec:{res.violated}:deliverAll={st.get('deliverAll')}",
                          f"DispatcherErr.tla {res.kind} {res.violated} violated for scenario {st.get('cfg')}: {st.get('hist')}",
                          {"cfg": str(st.get("cfg")), "hist": str(st.get("hist"))})
            return
    ctx.cov["exhaustive"] = True

    # 2. every scenario of the replay domain executed on a real RunEngine
    ctx.rule = ("scenario = (subscription names in order, raising document indices per callback, policy, plan lets go/"
                "catches, plan commands); every scenario of the replay domain (TLC terminal states) is executed on a real "
                "RunEngine and all events (documents emitted, callbacks invoked in order, exception at the plan, outcome) "
                "compared; non-trivial = some callback raises and >= 2 callbacks; distinct by scenario; plus random larger "
                "scenarios executed on the RunEngine and validated by TLC (DispatcherErrTrace)")
    kf_seen = 0
    for cfgname in ["DispatcherErr_replay_quick.cfg" if ctx.quick else "DispatcherErr_replay_thorough.cfg"]:
        hs = gen_histories(ctx, cfgname)
        if hs is None:
            return
        if not any(h[False]["kf"] for h in hs.values()):      # the known finding is reachable in the as-found model
            ctx.machinery("KF_C19_1 is not reachable in the as-found model")
        if not hs:
            ctx.machinery("no histories produced by the replay configuration")
        for key, h in hs.items():
            c = h["cfg"]
            ctx.case(key, nontrivial(c))
            try:
                obs = strip(execute(c))
            except Exception as ex:   # noqa
                ctx.violation(f"replay-exc:{type(ex).__name__}:{key}", f"scenario {c} raised {ex!r} in the harness", {"cfg": c})
                continue
            asfound, repaired = h[False], h[True]
            if obs == asfound["ev"]:
                if asfound["kf"]:
                    kf_seen += 1
                    ctx.violation(f"{KF_SIG}:replay:{key}",
                                  f"scenario {c}: a callback raised on a stop document under the propagate policy; delivery of the stop "
                                  f"was aborted and later-subscribed callbacks never received a stop for the run: {obs}",
                                  {"cfg": c, "observed": obs})
            elif obs == repaired["ev"]:
                pass        # repaired registry: property holds (checked by TLC on the model with DeliverAll = TRUE)
            else:
                k = next((i for i, (a, b) in enumerate(zip(asfound["ev"], obs)) if a != b), min(len(obs), len(asfound["ev"])))
                exp = asfound["ev"][k] if k < len(asfound["ev"]) else None
                got = obs[k] if k < len(obs) else None
                what = (exp or got or {}).get("op", "?")
                ctx.violation(f"replay:{what}:{key}",
                              f"scenario {c}: event {k} expected {exp} but the RunEngine gave {got}",
                              {"cfg": c, "expected": asfound["ev"], "observed": obs})
            if nontrivial(c) and not c["ignore"]:
                ctx.sample({"cfg": c, "events": [(e["op"], e["idx"], e["kind"], e["status"], e["calls"], e["msg"], e["who"], e["how"]) for e in obs]})

    # 3. random larger scenarios on the implementation, validated by TLC
    rng = random.Random(ctx.seed)
    traces = []
    for _ in range(120 if ctx.quick else 3000):
        c = random_cfg(rng)
        first, second = execute(c, followup=True)
        traces.append({"cfg": c, "ev": strip(first)})
        if second is not None:
            traces.append({"cfg": second[0], "ev": strip(second[1])})
    v = validate_traces("DispatcherErrTrace", "DispatcherErrTrace.cfg", traces, SD, ctx.out, tag="C19t", timeout=3000, env=FAST_ENV)
    ctx.add_tlc(v.res, "DispatcherErrTrace")
    for t in traces:
        ctx.case(cfg_key(t["cfg"]), nontrivial(t["cfg"]))
    ctx.traces(len(traces) - len(v.rejected) - (1 if v.invariant else 0))
    for idx, upto in v.rejected.items():
        t = traces[idx]
        e = t["ev"][upto] if upto < len(t["ev"]) else None
        ctx.violation(f"trace-rejected:{e['op'] if e else 'end'}:{cfg_key(t['cfg'])}",
                      f"RunEngine trace rejected by DispatcherErrTrace at event {upto}: {e}; scenario {t['cfg']}; events {t['ev']}",
                      {"trace": t, "accepted_prefix": upto})
    if v.invariant:
        t = traces[v.inv_trace_index] if v.inv_trace_index is not None else None
        ctx.violation(f"trace-invariant:{v.invariant}:{cfg_key(t['cfg']) if t else '?'}",
                      f"invariant {v.invariant} violated on a RunEngine trace: {t}", {"trace": t})
    for tid in sorted({int(m.group(1)) for m in re.finditer(r'<<"KF1", (\d+)>>', v.res.stdout)}):
        t = traces[tid - 1]
        kf_seen += 1
        ctx.violation(f"{KF_SIG}:trace:{cfg_key(t['cfg'])}",
                      f"scenario {t['cfg']}: a callback raised on a stop document under the propagate policy and later-subscribed "
                      f"callbacks never received a stop for the run: {t['ev']}", {"trace": t})
    ctx.note(f"finding KF-C19-1 shown by {kf_seen} executions")
    ctx.assumptions += [
        "documents reach callbacks only through RunEngine.emit_sync -> Dispatcher.process (open_run/save/close_run used as emitters)",
        "the first-subscribed, never-raising observer callback defines the sequence of emitted documents",
        "callbacks are plain functions subscribed with RE.subscribe before the call; a minimal Readable is the device",
        "event_model refuses to compose a second RunStop for a run (as the installed version does)"]
