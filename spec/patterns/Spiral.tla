------------------------------- MODULE Spiral -------------------------------
(***************************************************************************)
(* C27 -- spirals stay in bounds; square spirals cover the grid.           *)
(*                                                                         *)
(* Part 1 (state exploration).  SquareSpiral: the documented ring walk on  *)
(* the integer lattice.  Cells are relative to the start cell (the centre  *)
(* cell; for an even number of columns the one left of the centre, for an  *)
(* even number of rows the one above it).  Ring r is the square of         *)
(* Chebyshev radius r around the start, walked side by side                *)
(*   right side downwards, bottom side leftwards, left side upwards, top   *)
(*   side rightwards,                                                      *)
(* and clipped to the x_num by y_num grid.  One Next step appends one      *)
(* clipped ring.  The property: when the walk is complete every lattice    *)
(* point of the grid has been produced exactly once.                       *)
(*                                                                         *)
(* Part 2 (predicate on logged points, no state exploration: trigonometry  *)
(* is out of reach for TLC).  InRect states "inside the requested          *)
(* (possibly tilted) rectangle around the centre" in 10^-6 fixed point:    *)
(*    |x + (y / a) * t| <= x_range / 2   and   |y| <= y_range / 2          *)
(* for a point (x, y) relative to the centre, t = tan(tilt) = tn / td and  *)
(* a = dr_y / dr = an / ad (the tilt shears the un-stretched ring frame;   *)
(* a = 1 unless dr_y is given).  SpiralTrace.tla evaluates it on every     *)
(* point logged from spiral / spiral_fermat.                               *)
(***************************************************************************)
EXTENDS Integers, Sequences, SequencesExt, FiniteSets, TLC, Json, IOUtils

CONSTANTS MinNum, MaxNum        \* x_num, y_num range over MinNum..MaxNum

VARIABLES xn, yn, ring, walk
vars == <<xn, yn, ring, walk>>

Max2(a, b) == IF a > b THEN a ELSE b
Abs(x) == IF x < 0 THEN -x ELSE x

\* the grid in start-relative lattice coordinates
XLo(nx) == -((nx - 1) \div 2)
XHi(nx) == nx \div 2
YLo(ny) == -(ny \div 2)
YHi(ny) == (ny - 1) \div 2
InGrid(nx, ny, c) == c[1] >= XLo(nx) /\ c[1] <= XHi(nx) /\ c[2] >= YLo(ny) /\ c[2] <= YHi(ny)
Grid(nx, ny) == (XLo(nx)..XHi(nx)) \X (YLo(ny)..YHi(ny))

Ring(r) == [k \in 1..(2 * r) |-> <<r, r - k>>]            \* right side, downwards
        \o [k \in 1..(2 * r) |-> <<r - k, -r>>]           \* bottom side, leftwards
        \o [k \in 1..(2 * r) |-> <<-r, -r + k>>]          \* left side, upwards
        \o [k \in 1..(2 * r) |-> <<-r + k, r>>]           \* top side, rightwards
Clipped(nx, ny, r) == SelectSeq(Ring(r), LAMBDA c : InGrid(nx, ny, c))
LastRing(nx, ny) == Max2(nx, ny)                            \* "as many rings as the larger side"; surplus rings clip to nothing

Init == /\ xn \in MinNum..MaxNum /\ yn \in MinNum..MaxNum
        /\ ring = 0
        /\ walk = <<<<0, 0>>>>
Next == /\ ring < LastRing(xn, yn)
        /\ ring' = ring + 1
        /\ walk' = walk \o Clipped(xn, yn, ring + 1)
        /\ UNCHANGED <<xn, yn>>
Spec == Init /\ [][Next]_vars

----------------------------------------------------------------------------
Cheb(c) == Max2(Abs(c[1]), Abs(c[2]))
Done == ring = LastRing(xn, yn)

C27_SquareInGrid == \A a \in 1..Len(walk) : InGrid(xn, yn, walk[a])
C27_SquareNoPointTwice == \A a, b \in 1..Len(walk) : a # b => walk[a] # walk[b]
C27_SquareCoversGrid == Done => /\ {walk[a] : a \in 1..Len(walk)} = Grid(xn, yn)
                                /\ Len(walk) = xn * yn
\* it is a spiral: the distance from the start never decreases, and rings finished so far are complete
C27_SquareOutwards == \A a \in 1..(Len(walk) - 1) : Cheb(walk[a]) <= Cheb(walk[a + 1])
C27_SquareRingsComplete == {c \in Grid(xn, yn) : Cheb(c) <= ring} = {walk[a] : a \in 1..Len(walk)}

----------------------------------------------------------------------------
\* complete walk as absolute lattice indices (0-based column, row), for the replay
RECURSIVE WalkTo(_, _, _)
WalkTo(nx, ny, r) == IF r = 0 THEN <<<<0, 0>>>> ELSE WalkTo(nx, ny, r - 1) \o Clipped(nx, ny, r)
AbsIdx(nx, ny, w) == [a \in 1..Len(w) |-> <<w[a][1] - XLo(nx), w[a][2] - YLo(ny)>>]
Row(nx, ny) == [xn |-> nx, yn |-> ny, idx |-> AbsIdx(nx, ny, WalkTo(nx, ny, LastRing(nx, ny)))]
DumpCases == TLCGet("stats").generated >= 0 /\
             ndJsonSerialize(IOEnv.CASES_OUT, SetToSeq({Row(a, b) : a \in MinNum..MaxNum, b \in MinNum..MaxNum}))

----------------------------------------------------------------------------
\* Part 2: the in-rectangle predicate, 10^-6 fixed point (integers; all products stay below 2^31 for |coordinates|
\* <= 20 units and an, ad, |tn|, td <= 10).  c: [cx, cy, xr, yr, tn, td, an, ad], p = <<x, y>> absolute.
Eps == 2        \* rounding of the logged coordinates to 10^-6
InRect(p, c) ==
    LET X == p[1] - c.cx
        Y == p[2] - c.cy
    IN /\ 2 * Abs(X * c.an * c.td + Y * c.ad * c.tn) <= c.xr * c.an * c.td + 2 * Eps * (c.an * c.td + c.ad * Abs(c.tn))
       /\ 2 * Abs(Y) <= c.yr + 2 * Eps
\* spiral_fermat as coded compares the stretched y with the un-stretched half range: |y| <= (y_range / 2) / a
InRectFermatAsCoded(p, c) ==
    LET X == p[1] - c.cx
        Y == p[2] - c.cy
    IN /\ 2 * Abs(X * c.an * c.td + Y * c.ad * c.tn) <= c.xr * c.an * c.td + 2 * Eps * (c.an * c.td + c.ad * Abs(c.tn))
       /\ 2 * Abs(Y) * c.an <= c.yr * c.ad + 2 * Eps * c.an
=============================================================================
