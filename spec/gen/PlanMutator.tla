---------------------------- MODULE PlanMutator ----------------------------
(***************************************************************************)
(* C20 / C21 -- bluesky.preprocessors.plan_mutator and msg_mutator as a    *)
(* reactive component between a DRIVER (the environment issuing            *)
(* send / throw / close on the wrapper, i.e. the RunEngine) and INNER      *)
(* GENERATORS (the wrapped plan "host" = generator 1 and the head / tail   *)
(* generators returned by the message processor), whose reactions are      *)
(* chosen by the environment according to the generator protocol (Gen.tla).*)
(*                                                                         *)
(* Implementation-shaped: the variables are the locals of plan_mutator     *)
(* (plan_stack, result_stack, tail_cache, tail_result_cache, msgs_seen,    *)
(* exception, ret, ret_value, msg) and there is one action per arm of its  *)
(* `while True` loop:                                                      *)
(*   DriverCall  the driver resumes / starts / probes the wrapper          *)
(*   Arm         throw arm or send arm on the top of plan_stack, with the  *)
(*               StopIteration / Exception handlers                        *)
(*   ProcStep    the `if id(msg) not in msgs_seen` block (processor call,  *)
(*               head/tail pushed) and the outward `yield msg`             *)
(*   CloseStep   the GeneratorExit handler (`for p in plan_stack: close`)  *)
(*   MMStep      msg_mutator (impl = "msg_mutator"): one inner call per    *)
(*               driver operation                                          *)
(*                                                                         *)
(* The properties are stated in the vocabulary of the statements (what the *)
(* driver, the host plan and the inserted plans see) by monitors that do   *)
(* not look at the mechanism: rd/ref (C20, reference = bare generator),    *)
(* ins/due/bad (C21).                                                      *)
(*                                                                         *)
(* Two behaviours of the code as found contradict C21 (see notes/C21.md);  *)
(* each sits at a single point, which is modelled both ways:               *)
(*   Reprocess = TRUE  messages yielded by head/tail are handed to the     *)
(*                     processor again (as found); FALSE = only host msgs  *)
(*   StaleExc  = TRUE  the StopIteration handler of the throw arm leaves   *)
(*                     `exception` set (as found); FALSE = it is cleared   *)
(***************************************************************************)
EXTENDS Gen, Naturals, Sequences, FiniteSets, TLC

CONSTANTS Impls,       \* subset of {"plan_mutator", "msg_mutator"}
          Procs,       \* subset of {"identity" (C20), "insert" (C21: the processor may return (head, tail))}
          Variants,    \* subset of {"TT","TF","FT","FF"}: <Reprocess><StaleExc>, "TT" = code as found, "FF" = repaired
          MaxOpsId,    \* bound on driver operations, identity processor
          MaxOpsIns,   \* bound on driver operations, inserting processor
          MaxGens,     \* bound on inserted generators
          MaxPost,     \* driver operations after the wrapper has finished
          KeepHist,    \* BOOLEAN: record the history (off for trace validation)
          DumpVariants \* alternatives whose maximal histories are printed (those the implementation can be run on)

VARIABLES
  \* --- what is being run (chosen in Init, constant afterwards)
  impl,     \* "plan_mutator" | "msg_mutator"
  proc,     \* "identity" | "insert"
  variant,  \* which alternative of the two defective points this behaviour follows
  gcgens,   \* BOOLEAN: forget finished generators (only for traces whose inserted generators cannot be observed)
  \* --- the wrapper (locals of plan_mutator / msg_mutator and where it is suspended)
  wpc,      \* "fresh" | "top" (loop head) | "proc" (msg obtained) | "yield" (suspended at yield) | "closing" | "mm" | "done"
  stack,    \* plan_stack: generator indices, bottom first
  rstack,   \* result_stack
  tailc,    \* tail_cache: generator -> tail generator (0 = None)
  tailr,    \* tail_result_cache: tail generator -> saved response
  seen,     \* msgs_seen
  exc,      \* stashed exception ("none" = None)
  ret,      \* local `ret`
  retv,     \* ret_value
  msg,      \* current message
  ci,       \* position of the close loop
  pend,     \* msg_mutator: the operation to forward
  gens,     \* all generators: [kind: host|head|tail|single, st, orig: the message the processor was given]
  \* --- environment bookkeeping
  nops, post, nm, nx,
  obs,      \* interface events produced by the last step
  hist,     \* all interface events (every history is explored and replayed on the real code)
  \* --- property monitors (statement vocabulary)
  rd,       \* the current driver operation and what reached the parent during it (C20)
  ref,      \* status of the reference: the bare generator driven by the same operations (C20)
  lastout,  \* what the wrapper answered
  src,      \* generator that produced the message the wrapper yielded last
  due,      \* the driver's reply that must reach src next
  ins,      \* the insertion in progress at a host message (C21)
  bad,      \* clauses of C21 violated so far
  stale     \* an inserted generator handled a thrown exception and returned normally (scenario of KF-C21-2)

cfgv  == <<impl, proc, variant, gcgens>>
Reprocess == variant \in {"TT", "TF"}
StaleExc  == variant \in {"TT", "FT"}
MaxOps    == IF proc = "identity" THEN MaxOpsId ELSE MaxOpsIns
implv == <<wpc, stack, rstack, tailc, tailr, seen, exc, ret, retv, msg, ci, pend, gens>>
envv  == <<nops, post, nm, nx, obs, hist>>
monv  == <<rd, ref, lastout, src, due, ins, bad, stale>>
vars  == <<cfgv, implv, envv, monv>>

E(k, g, op, a) == [k |-> k, g |-> g, op |-> op, a |-> a, c |-> 0]
\* an inner generator's answer; c = 1 iff code of its body ran (the environment chose), 0 iff the protocol forced it
Er(g, r, runs) == [k |-> "iret", g |-> g, op |-> r.op, a |-> r.a, c |-> IF runs THEN 1 ELSE 0]
NoOut == R("", "")
NoDue == [on |-> FALSE, g |-> 0, op |-> "", a |-> ""]
NoIns == [on |-> FALSE, h |-> 0, t |-> 0, phase |-> "", resp |-> "", e |-> "", taint |-> FALSE]
NoRd  == [op |-> "", a |-> "", n |-> 0, pop |-> "", pa |-> "", r |-> NoOut, ref0 |-> "fresh"]
Front(s) == SubSeq(s, 1, Len(s) - 1)
Min(x, y) == IF x < y THEN x ELSE y

InitWith(i, p, v, gc) ==
  /\ impl = i /\ proc = p /\ variant = v /\ gcgens = gc
  /\ wpc = "fresh" /\ stack = <<1>> /\ rstack = <<"None">> /\ tailc = <<>> /\ tailr = <<>> /\ seen = {}
  /\ exc = "none" /\ ret = "None" /\ retv = "None" /\ msg = "" /\ ci = 0 /\ pend = NoOut
  /\ gens = << [kind |-> "host", st |-> "fresh", orig |-> ""] >>
  /\ nops = 0 /\ post = 0 /\ nm = 0 /\ nx = 0 /\ obs = <<>> /\ hist = <<>>
  /\ rd = NoRd /\ ref = "fresh" /\ lastout = NoOut /\ src = 0 /\ due = NoDue /\ ins = NoIns /\ bad = {} /\ stale = FALSE

Init == \E i \in Impls, p \in Procs, v \in Variants :
          /\ (p = "insert") => (i = "plan_mutator")
          /\ (p = "identity") => (v = CHOOSE w \in Variants : TRUE)     \* the variants do not differ without insertion
          /\ InitWith(i, p, v, FALSE)

Tup(evs) == [i \in 1..Len(evs) |-> <<evs[i].k, evs[i].g, evs[i].op, evs[i].a, evs[i].c>>]
Log == /\ hist' = IF KeepHist THEN hist \o Tup(obs') ELSE hist
       /\ UNCHANGED cfgv

Idle == wpc \in {"fresh", "yield", "done"}
\* Assumption on the driver: after a close() that raised, the generator is not driven any further.
Halt == rd.op = "close" /\ lastout.op = "raise"

----------------------------------------------------------------------------
(* fresh labels of the bounded model (trace validation takes labels from the trace instead) *)
NewMsg == "m" \o ToString(nm + 1)
NewExc == "x" \o ToString(nx + 1)
RetLabel(g) == "r" \o ToString(g)

\* single_gen(msg) (bluesky.utils): `return (yield msg)` -- a generator with no freedom
SingleReact(op, a, orig, st) ==
    CASE st = "fresh" -> R("yield", orig)
      [] op = "send"  -> R("return", a)
      [] op = "throw" -> R("raise", a)
      [] op = "close" -> R("closed", "None")

AllowedG(g, op, a, r) ==
    /\ Allowed(gens[g].st, op, a, r)
    /\ (gens[g].kind = "single" /\ CodeRuns(gens[g].st, op)) => r = SingleReact(op, a, gens[g].orig, gens[g].st)

\* reactions enumerated by the bounded model
Reacts(g, op, a) ==
    LET st == gens[g].st IN
    IF ~CodeRuns(st, op) THEN {Forced(st, op, a)}
    ELSE IF gens[g].kind = "single" THEN {SingleReact(op, a, gens[g].orig, st)}
    ELSE IF op = "close" THEN {R("closed", "None"), R("raise", IgnoredExit), R("raise", NewExc)}
    ELSE {R("yield", NewMsg), R("return", RetLabel(g)), R("raise", NewExc)}
         \cup (IF op = "throw" THEN {R("raise", a)} ELSE {})                        \* lets the exception through
         \cup (IF gens[g].kind = "head" THEN {R("yield", gens[g].orig)} ELSE {})    \* head passes the original message on

Count(r) == /\ nm' = IF r.op = "yield" /\ r.a = NewMsg THEN nm + 1 ELSE nm
            /\ nx' = IF r.op = "raise" /\ r.a = NewExc THEN nx + 1 ELSE nx

----------------------------------------------------------------------------
(* monitors *)
RdAfter(g, op, a, r, runs) ==
    IF g = 1 /\ runs THEN [rd EXCEPT !.n = Min(2, rd.n + 1), !.pop = op, !.pa = a, !.r = r] ELSE rd

\* answer `o` goes to the driver: the round is complete
Answer(o, rd1) == /\ lastout' = o
                  /\ ref' = NextSt(rd1.ref0, rd1.op, RefOutcome(rd1))
NoAnswer == lastout' = NoOut /\ ref' = ref

\* C21 bookkeeping for an inner call  op(a) -> r  on generator g.  Result: [ins, tags]
InsAfter(g, op, a, r, runs) ==
    IF ~ins.on THEN [ins |-> ins, tags |-> {}]
    ELSE IF g = 1 THEN      \* the host plan is resumed: the insertion is over
         [ins |-> NoIns,
          tags |-> IF ins.taint THEN {}
                   ELSE CASE ins.phase \in {"head", "tail"} -> {"tailorder"}     \* resumed before head/tail were through
                          [] ins.phase = "back" -> IF op = "send" /\ (ins.resp = "?" \/ a = ins.resp) THEN {} ELSE {"resp"}
                          [] ins.phase = "exc"  -> IF op = "throw" /\ a = ins.e THEN {} ELSE {"excprop"}
                          [] OTHER -> {}]
    ELSE IF ins.taint THEN [ins |-> ins, tags |-> {}]
    ELSE IF g = ins.h THEN
         [ins |-> [ins EXCEPT !.resp = IF op = "send" THEN a ELSE "?",    \* the response to head's last message
                              !.phase = CASE r.op = "return" -> (IF ins.t # 0 THEN "tail" ELSE "back")
                                          [] r.op = "raise" -> "exc"
                                          [] OTHER -> "head",
                              !.e = IF r.op = "raise" THEN r.a ELSE ins.e],
          tags |-> {}]
    ELSE IF g = ins.t THEN
         [ins |-> [ins EXCEPT !.phase = CASE r.op = "return" -> "back"
                                          [] r.op = "raise" -> "exc"
                                          [] OTHER -> ins.phase,
                              !.e = IF r.op = "raise" THEN r.a ELSE ins.e],
          tags |-> IF (ins.phase # "tail" /\ runs)       \* tail runs although head did not complete normally
                      \/ (ins.phase = "tail" /\ ~runs)   \* head completed, but tail is killed before it starts
                   THEN {"tailorder"} ELSE {}]
    ELSE [ins |-> ins, tags |-> {}]

DueTags(g, op, a) == IF due.on /\ ~(g = due.g /\ op = due.op /\ a = due.a) THEN {"reply"} ELSE {}

----------------------------------------------------------------------------
(* the driver *)
DriverCall(op, a) ==
  /\ Idle /\ nops < MaxOps /\ ~Halt
  /\ (wpc = "done") => post < MaxPost
  /\ LET wst  == IF wpc = "yield" THEN "susp" ELSE wpc      \* the wrapper is itself a generator object
         runs == CodeRuns(wst, op)
         rd1  == [op |-> op, a |-> a, n |-> 0, pop |-> "", pa |-> "", r |-> NoOut, ref0 |-> ref]
         f    == Forced(wst, op, a)
     IN /\ SendOK(wst, op, a)
        /\ nops' = nops + 1
        /\ post' = IF wpc = "done" THEN post + 1 ELSE post
        /\ rd' = rd1
        /\ UNCHANGED <<stack, seen, ret, retv, msg, nm, nx, src, ins, bad, stale>>
        /\ IF gcgens /\ stack = <<1>>
           THEN \* Only the host is alive: finished generators and cache entries keyed by them can never be looked at
                \* again (identities are not reused).  Forgetting them lets TLC identify explanations of a trace that
                \* differ only in how a completed insertion was split into head and tail.
                gens' = <<gens[1]>> /\ tailc' = <<>> /\ tailr' = <<>>
           ELSE UNCHANGED <<gens, tailc, tailr>>
        /\ IF runs
           THEN /\ obs' = <<E("call", 0, op, a)>>
                /\ NoAnswer
                /\ due' = IF wpc = "yield" /\ op # "close" THEN [on |-> TRUE, g |-> src, op |-> op, a |-> a] ELSE NoDue
                /\ IF impl = "msg_mutator"
                   THEN pend' = R(op, a) /\ wpc' = "mm" /\ UNCHANGED <<rstack, exc, ci>>
                   ELSE /\ pend' = pend
                        /\ wpc' = IF op = "close" THEN "closing" ELSE "top"
                        /\ rstack' = IF op = "send" /\ wpc = "yield" THEN Append(rstack, a) ELSE rstack
                        /\ exc' = IF op = "throw" THEN a ELSE exc
                        /\ ci' = IF op = "close" THEN 1 ELSE ci
           ELSE \* no code of the wrapper runs (it is unstarted or finished): generator protocol
                /\ obs' = <<E("call", 0, op, a), E("out", 0, f.op, f.a)>>
                /\ Answer(f, rd1)
                /\ wpc' = "done"
                /\ due' = NoDue
                /\ UNCHANGED <<rstack, exc, ci, pend>>
  /\ Log

----------------------------------------------------------------------------
(* plan_mutator: one pass through the throw arm or the send arm *)
TopG  == stack[Len(stack)]
TopOp == IF exc # "none" THEN "throw" ELSE "send"
TopA  == IF exc # "none" THEN exc ELSE rstack[Len(rstack)]

Arm(r) ==
  /\ wpc = "top"
  /\ LET g     == TopG
         thr   == exc # "none"
         op    == TopOp
         a     == TopA
         rs1   == IF thr THEN rstack ELSE Front(rstack)                  \* ret = result_stack.pop()
         ret1  == IF thr THEN ret ELSE a
         runs  == CodeRuns(gens[g].st, op)
         evs   == <<E("icall", g, op, a), Er(g, r, runs)>>
         stk1  == Front(stack)                                           \* plan_stack.pop()
         hasT  == g \in DOMAIN tailc /\ tailc[g] # 0
         tailcD == [x \in (DOMAIN tailc) \ {g} |-> tailc[x]]
         \* except StopIteration
         retvS == IF g = 1 THEN r.a ELSE retv
         retS  == IF g \in DOMAIN tailr THEN tailr[g] ELSE ret1
         stkS  == IF hasT THEN Append(stk1, tailc[g]) ELSE stk1
         rsS   == IF hasT THEN Append(rs1, "None") ELSE Append(rs1, retS)
         tailrS == [x \in ((DOMAIN tailr) \ {g}) \cup (IF hasT THEN {tailc[g]} ELSE {}) |->
                      IF hasT /\ x = tailc[g] THEN retS ELSE tailr[x]]
         \* except Exception: only the send arm looks at tail_cache
         stkX  == IF ~thr /\ hasT THEN Append(stk1, tailc[g]) ELSE stk1
         m     == InsAfter(g, op, a, r, runs)
         rd1   == RdAfter(g, op, a, r, runs)
     IN /\ AllowedG(g, op, a, r)
        /\ Count(r)
        /\ gens' = [gens EXCEPT ![g].st = NextSt(gens[g].st, op, r)]
        /\ rd' = rd1
        /\ ins' = m.ins
        /\ bad' = bad \cup m.tags \cup DueTags(g, op, a)
        /\ due' = NoDue
        /\ stale' = (stale \/ (gens[g].kind # "host" /\ op = "throw" /\ runs /\ r.op = "return"))
        /\ UNCHANGED <<seen, ci, pend, nops, post, src>>
        /\ CASE r.op = "yield" ->
                  /\ msg' = r.a /\ exc' = "none" /\ wpc' = "proc" /\ rstack' = rs1 /\ ret' = ret1
                  /\ UNCHANGED <<stack, tailc, tailr, retv>>
                  /\ obs' = evs /\ NoAnswer
             [] r.op = "return" ->
                  /\ stack' = stkS /\ rstack' = rsS /\ ret' = retS /\ retv' = retvS
                  /\ tailr' = tailrS
                  /\ tailc' = IF g \in DOMAIN tailc THEN tailcD ELSE tailc
                  /\ msg' = msg
                  /\ IF stkS # <<>>
                     THEN /\ wpc' = "top"
                          /\ exc' = IF thr /\ StaleExc THEN exc ELSE "none"
                          /\ obs' = evs /\ NoAnswer
                     ELSE /\ wpc' = "done" /\ exc' = exc
                          /\ obs' = Append(evs, E("out", 0, "return", retvS))
                          /\ Answer(R("return", retvS), rd1)
             [] r.op = "raise" ->
                  /\ stack' = stkX /\ rstack' = rs1 /\ ret' = ret1
                  /\ tailc' = IF ~thr /\ g \in DOMAIN tailc THEN tailcD ELSE tailc
                  /\ UNCHANGED <<tailr, retv, msg>>
                  /\ IF stkX # <<>>
                     THEN /\ wpc' = "top" /\ exc' = r.a
                          /\ obs' = evs /\ NoAnswer
                     ELSE /\ wpc' = "done" /\ exc' = exc
                          /\ obs' = Append(evs, E("out", 0, "raise", r.a))
                          /\ Answer(R("raise", r.a), rd1)
  /\ Log

\* `if id(msg) not in msgs_seen: ... msg_proc(msg) ...` followed (unless something was pushed) by `yield msg`
Need(c) == CASE c = "h" -> 1 [] c = "t" -> 2 [] c = "ht" -> 2 [] OTHER -> 0
ProcChoices ==
    IF proc = "identity" THEN {"id"}
    ELSE {"id"} \cup {c \in {"h", "t", "ht"} : Len(gens) + Need(c) <= MaxGens + 1}

ProcStep(c) ==
  /\ wpc = "proc"
  /\ LET g    == TopG
         elig == msg \notin seen /\ (Reprocess \/ g = 1)
         n    == Len(gens)
         mk(kind) == [kind |-> kind, st |-> "fresh", orig |-> msg]
         \* generators created: (head, None) -> n+1 ; (head, tail) -> n+1, n+2 ; (None, tail) -> tail n+1, single_gen n+2
         newg == CASE c = "h"  -> <<mk("head")>>
                   [] c = "ht" -> <<mk("head"), mk("tail")>>
                   [] c = "t"  -> <<mk("tail"), mk("single")>>
                   [] OTHER    -> <<>>
         h    == IF c = "t" THEN n + 2 ELSE n + 1
         t    == CASE c = "ht" -> n + 2 [] c = "t" -> n + 1 [] OTHER -> 0
         inserts == c \in {"h", "t", "ht"}
     IN /\ IF elig THEN c \in {"id", "h", "t", "ht"} ELSE c = "skip"
        /\ seen' = IF elig THEN seen \cup {msg} ELSE seen
        /\ gens' = gens \o newg
        /\ UNCHANGED <<tailr, exc, ret, retv, msg, ci, pend, nops, post, nm, nx, rd, due, stale>>
        /\ bad' = IF elig /\ g # 1 THEN bad \cup {"reprocessed"} ELSE bad      \* the processor is handed an inserted message
        /\ IF inserts
           THEN /\ stack' = Append(stack, h)
                /\ rstack' = Append(rstack, "None")
                /\ tailc' = [x \in (DOMAIN tailc) \cup {h} |-> IF x = h THEN t ELSE tailc[x]]
                /\ wpc' = "top"
                /\ ins' = IF g = 1
                          THEN [on |-> TRUE, h |-> h, t |-> t, phase |-> "head", resp |-> "None", e |-> "", taint |-> FALSE]
                          ELSE [ins EXCEPT !.taint = TRUE]
                /\ src' = src
                /\ obs' = <<E("proc", 0, c, msg)>>
                /\ NoAnswer
           ELSE /\ UNCHANGED <<stack, rstack, tailc, ins>>
                /\ wpc' = "yield"
                /\ src' = g
                /\ obs' = (IF elig THEN <<E("proc", 0, c, msg)>> ELSE <<>>) \o <<E("out", 0, "yield", msg)>>
                /\ Answer(R("yield", msg), rd)
  /\ Log

\* except GeneratorExit: for p in plan_stack: p.close(); raise
CloseStep(r) ==
  /\ wpc = "closing"
  /\ LET g    == stack[ci]
         runs == CodeRuns(gens[g].st, "close")
         rd1  == RdAfter(g, "close", "None", r, runs)
         evs  == <<E("icall", g, "close", "None"), Er(g, r, runs)>>
     IN /\ AllowedG(g, "close", "None", r)
        /\ Count(r)
        /\ gens' = [gens EXCEPT ![g].st = NextSt(gens[g].st, "close", r)]
        /\ rd' = rd1
        /\ UNCHANGED <<stack, rstack, tailc, tailr, seen, exc, ret, retv, msg, pend, nops, post, src, due, ins, bad, stale>>
        /\ IF r.op = "closed" /\ ci < Len(stack)
           THEN /\ ci' = ci + 1 /\ wpc' = wpc /\ obs' = evs /\ NoAnswer
           ELSE /\ ci' = ci /\ wpc' = "done"
                /\ obs' = Append(evs, E("out", 0, r.op, r.a))
                /\ Answer(r, rd1)
  /\ Log

----------------------------------------------------------------------------
(* msg_mutator with a processor that returns the message it is given *)
MMStep(r) ==
  /\ wpc = "mm"
  /\ LET op   == pend.op
         a    == pend.a
         runs == CodeRuns(gens[1].st, op)
         rd1  == RdAfter(1, op, a, r, runs)
         evs  == <<E("icall", 1, op, a), Er(1, r, runs)>>
     IN /\ AllowedG(1, op, a, r)
        /\ Count(r)
        /\ gens' = [gens EXCEPT ![1].st = NextSt(gens[1].st, op, r)]
        /\ rd' = rd1
        /\ bad' = bad \cup DueTags(1, op, a)
        /\ due' = NoDue
        /\ UNCHANGED <<stack, rstack, tailc, tailr, seen, exc, ret, retv, ci, pend, nops, post, ins, stale>>
        /\ IF r.op = "yield"
           THEN /\ msg' = r.a /\ wpc' = "yield" /\ src' = 1
                /\ obs' = evs \o <<E("proc", 0, "id", r.a), E("out", 0, "yield", r.a)>>
                /\ Answer(r, rd1)
           ELSE /\ msg' = msg /\ wpc' = "done" /\ src' = src
                /\ obs' = Append(evs, E("out", 0, r.op, r.a))
                /\ Answer(r, rd1)
  /\ Log

----------------------------------------------------------------------------
DriverOps == {<<"send", IF wpc = "fresh" THEN "None" ELSE "v" \o ToString(nops + 1)>>,
              <<"throw", "e" \o ToString(nops + 1)>>,
              <<"close", "None">>}

Next ==
  \/ \E d \in DriverOps : DriverCall(d[1], d[2])
  \/ wpc = "top" /\ \E r \in Reacts(TopG, TopOp, TopA) : Arm(r)
  \/ wpc = "proc" /\ \E c \in ProcChoices \cup {"skip"} : ProcStep(c)
  \/ wpc = "closing" /\ \E r \in Reacts(stack[ci], "close", "None") : CloseStep(r)
  \/ wpc = "mm" /\ \E r \in Reacts(1, pend.op, pend.a) : MMStep(r)

Spec == Init /\ [][Next]_vars

----------------------------------------------------------------------------
(* C20: with a processor that changes nothing the wrapper is the wrapped plan.  Evaluated whenever a driver        *)
(* operation has been answered; the reference is the bare generator (Gen.tla) reacting the way the parent did.     *)
Answered == Idle /\ nops > 0
C20_SameOpsReachParent == (proc = "identity" /\ Answered) => SameOpsReachParent(rd)
C20_SameOutcome        == (proc = "identity" /\ Answered) => SameOutcome(rd, lastout)
\* the wrapper is finished exactly when the bare generator would be
C20_SameLiveness       == (proc = "identity" /\ Answered /\ ~Halt) => ((wpc = "done") <=> (ref = "done"))

(* C21, one clause each *)
(* Only the defective alternative of a known finding is exempted (DESIGN.md section 8): a behaviour of the     *)
(* repaired alternative (variant "FF") has to satisfy every clause without exception.                          *)
KF1 == Reprocess            \* KF-C21-1: this behaviour hands inserted messages to the processor
KF2 == StaleExc /\ stale    \* KF-C21-2: an inserted generator swallowed a thrown exception, `exception` stayed set
C21_HostGetsHeadResponse == "resp" \notin bad \/ KF2        \* host receives the response to head's last message
C21_TailRightAfterHead   == "tailorder" \notin bad \/ KF2   \* tail runs right after head, host resumed only afterwards
C21_NoReprocess          == "reprocessed" \notin bad \/ KF1 \* inserted messages are not handed to the processor
C21_ExceptionsReachHost  == "excprop" \notin bad     \* an exception out of head/tail is thrown into the host at its yield
C21_ReplyToYielder       == "reply" \notin bad       \* the driver's reply goes to the generator whose message it answers
\* without exemption (PlanMutator_asfound_strict.cfg: shows that the signatures of the findings are reachable)
C21_NoReprocess_Strict          == "reprocessed" \notin bad
C21_HostGetsHeadResponse_Strict == "resp" \notin bad
C21_TailRightAfterHead_Strict   == "tailorder" \notin bad

----------------------------------------------------------------------------
Terminal == Idle /\ (nops = MaxOps \/ Halt \/ (wpc = "done" /\ post = MaxPost))
\* used as a CONSTRAINT in the replay-generation configs: print every maximal history
DumpHist == (Terminal /\ variant \in DumpVariants) => PrintT(<<"HIST", impl, proc, variant, hist, bad, stale>>)

TypeOK ==
  /\ wpc \in {"fresh", "top", "proc", "yield", "closing", "mm", "done"}
  /\ \A i \in 1..Len(stack) : stack[i] \in 1..Len(gens)
  /\ \A i \in 1..Len(gens) : gens[i].st \in GenStatus
  /\ (wpc \in {"top", "proc", "yield", "closing"} /\ impl = "plan_mutator") => stack # <<>>
  /\ (wpc = "top" /\ exc = "none") => rstack # <<>>
  /\ bad \subseteq {"resp", "tailorder", "reprocessed", "excprop", "reply"}
=============================================================================
