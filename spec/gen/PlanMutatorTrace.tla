------------------------- MODULE PlanMutatorTrace -------------------------
(***************************************************************************)
(* Batch validation of interface traces recorded from the REAL             *)
(* plan_mutator / msg_mutator (and from baseline_wrapper,                  *)
(* monitor_during_wrapper, relative_set_wrapper) against PlanMutator.tla.  *)
(*                                                                         *)
(* TRACE_FILE: ndjson, one trace per line:                                 *)
(*   [impl, proc, variant, hidden, ev]    ev = sequence of [k, g, op, a]   *)
(*     call  0 op a      the driver calls send/throw/close on the wrapper  *)
(*     out   0 op a      what the wrapper answers (yield/return/raise/closed)*)
(*     icall g op a      the wrapper calls generator g (probe around g)    *)
(*     iret  g op a      what g answers                                    *)
(*     proc  0 c  m      the processor is called with message m and        *)
(*                       returns c: id | h | t | ht                        *)
(* Every event has to be produced by the corresponding action of           *)
(* PlanMutator with exactly these values.  Steps of generators that cannot *)
(* be probed are silent and TLC infers them: single_gen(msg), which        *)
(* plan_mutator creates itself, always; with hidden = TRUE (wrappers of    *)
(* bluesky whose processor and inserted plans are internal) every inserted *)
(* generator and the processor.  In hidden mode only behaviours on which   *)
(* no C21 clause is violated are followed (CONSTRAINT): a trace is         *)
(* accepted iff some behaviour of the spec satisfying C21 explains it.     *)
(* For probed traces the search is deterministic; the C21 clauses violated *)
(* on the trace are reported when its last event has been matched.         *)
(***************************************************************************)
EXTENDS PlanMutator, Json, IOUtils

Traces == ndJsonDeserialize(IOEnv.TRACE_FILE)

VARIABLES tid, l
tvars == <<vars, tid, l>>

T   == Traces[tid]
Evs == T.ev
Has(i) == i <= Len(Evs)

TraceInit == /\ tid \in 1..Len(Traces)
             /\ l = 1
             /\ InitWith(Traces[tid].impl, Traces[tid].proc, Traces[tid].variant, Traces[tid].hidden)
             /\ TLCSet(tid, 1)

HiddenG(g) == g # 0 /\ (gens[g].kind = "single" \/ (T.hidden /\ g # 1))
Visible(o) == SelectSeq(o, LAMBDA e : /\ ~(e.k \in {"icall", "iret"} /\ HiddenG(e.g))
                                      /\ ~(e.k = "proc" /\ T.hidden))
Same(e, t) == e.k = t.k /\ e.g = t.g /\ e.op = t.op /\ e.a = t.a

\* the visible part of what this step produced is the next part of the trace
Match == LET v == Visible(obs')
         IN /\ l + Len(v) - 1 <= Len(Evs)
            /\ \A i \in 1..Len(v) : Same(v[i], Evs[l + i - 1])
            /\ l' = l + Len(v)
            /\ ((l + Len(v) = Len(Evs) + 1 /\ bad' # {}) => PrintT(<<"BADTAGS", tid, bad', stale'>>))
            /\ TLCSet(tid, IF TLCGet(tid) > l + Len(v) THEN TLCGet(tid) ELSE l + Len(v))

\* reactions to try for generator g called with op(a): a probed generator's answer is the event after the call;
\* an unprobed one is guessed from what becomes visible next
RECURSIVE NextHostCall(_)
NextHostCall(i) == IF ~Has(i) THEN 0 ELSE IF Evs[i].k = "icall" /\ Evs[i].g = 1 THEN i ELSE NextHostCall(i + 1)
Guess0(g, op, a) ==
    IF ~CodeRuns(gens[g].st, op) \/ gens[g].kind = "single" THEN Reacts(g, op, a)
    ELSE IF op = "close" THEN {R("closed", "None")} \cup (IF Has(l) /\ Evs[l].k = "out" /\ Evs[l].op = "raise" THEN {R("raise", Evs[l].a)} ELSE {})
    ELSE {R("return", "None")}
         \cup (IF Has(l) /\ Evs[l].k = "out" /\ Evs[l].op = "yield" THEN {R("yield", Evs[l].a)} ELSE {})
         \cup (IF Has(l) /\ ((Evs[l].k = "icall" /\ Evs[l].op = "throw") \/ (Evs[l].k = "out" /\ Evs[l].op = "raise"))
               THEN {R("raise", Evs[l].a)} ELSE {})
\* Steering only (removes guesses that cannot succeed or that duplicate another explanation):
\*  - the host is next resumed with send(w): a head that is sent v # w cannot return now (the host would get v;
\*    responses are distinct objects);
\*  - a tail that returns without yielding is the same as no tail.
Guess(g, op, a) ==
    LET j == NextHostCall(l)
        w == IF j # 0 /\ Evs[j].op = "send" THEN Evs[j].a ELSE ""
    IN IF gens[g].kind = "head" /\ op = "send" /\ a # "None" /\ w # "" /\ a # w /\ CodeRuns(gens[g].st, op)
       THEN Guess0(g, op, a) \ {R("return", "None")}
       ELSE IF gens[g].kind = "tail" /\ gens[g].st = "fresh" /\ op = "send"
       THEN Guess0(g, op, a) \ {R("return", "None")}
       ELSE Guess0(g, op, a)
Cand(g, op, a) ==
    IF HiddenG(g) THEN Guess(g, op, a)
    ELSE IF Has(l + 1) /\ Evs[l + 1].k = "iret" THEN {R(Evs[l + 1].op, Evs[l + 1].a)} ELSE {}

ProcCand ==
    IF T.hidden THEN {"skip", "id", "h", "ht"}
    ELSE IF Has(l) /\ Evs[l].k = "proc" THEN {Evs[l].op} ELSE {"skip"}

Step ==
    \/ Has(l) /\ Evs[l].k = "call" /\ DriverCall(Evs[l].op, Evs[l].a)
    \/ wpc = "top" /\ \E r \in Cand(TopG, TopOp, TopA) : Arm(r)
    \/ wpc = "proc" /\ \E c \in ProcCand : ProcStep(c)
    \/ wpc = "closing" /\ \E r \in Cand(stack[ci], "close", "None") : CloseStep(r)
    \/ wpc = "mm" /\ \E r \in Cand(1, pend.op, pend.a) : MMStep(r)

TraceNext == Step /\ Match /\ UNCHANGED tid

TraceSpec == TraceInit /\ [][TraceNext]_tvars

\* hidden mode: follow only explanations on which the property holds
OnlyGoodExplanations == T.hidden => bad = {}

\* every trace consumed completely; otherwise print how far each one got
TraceAccepted ==
    LET rej == {t \in 1..Len(Traces) : TLCGet(t) # Len(Traces[t].ev) + 1}
    IN rej = {} \/ ((\A t \in rej : PrintT(<<"REJECTED", t, TLCGet(t)>>)) /\ FALSE)
=============================================================================
