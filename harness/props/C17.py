"""C17 -- RunStart metadata merges its sources with the documented precedence; scan_id counts opened runs;
a rejecting validator prevents the RunStart.

spec/metadata/Metadata.tla models the four metadata layers (persistent RE.md, plan identity, open_run keywords,
RE(...) keywords) as ChainMap lookup, the default scan_id source, validator and normalizer, for histories of
calls and open_run messages.  TLC checks the statement's invariants on every history of the bounded domain;
every maximal history is replayed on a real RunEngine (md dict, md_validator / md_normalizer constructor
arguments, Msg('open_run', **md), RE(plan, **kw)) and every result compared; random larger histories executed on
the RunEngine are validated by TLC (MetadataTrace, batch scheme).  The rejected-open step exists in the spec in
its as-found form (scan_id stored before the validator runs) and in its repaired form.
"""
import asyncio
import json
import random
import re
import time
from concurrent.futures import ThreadPoolExecutor

from harness.tlc import run_tlc, tojson, SPEC
from harness.tracecheck import validate_traces

SD = SPEC / "metadata"
DESIGN_REF = "DESIGN.md section 7 (C17), section 8"

MODEL_KEYS = ["a", "b", "c", "plan_name", "plan_type", "scan_id"]          # AllKeys of the model-checking configs (subset of TRACE_KEYS)
TRACE_KEYS = ["a", "b", "c", "d", "plan_name", "plan_type", "scan_id", "versions"]      # = AllKeys of MetadataTrace.cfg
FIELDS = ("op", "o", "vmode", "nmode", "kind", "start", "md", "kw", "ident")
PLAN_TYPES = {1: "generator", 2: "PlanObj"}
KF_SIG = "scan_id-gap-after-rejected-open"


class Rej(Exception):
    """raised by the harness's validator / normalizer when told to reject"""


class Boom(Exception):
    pass


class PlanObj:
    """a plan that is not a generator: iterable class instance, optionally without __name__"""

    def __init__(self, gen, name=None):
        self._gen = gen
        if name is not None:
            self.__name__ = name

    def __iter__(self):
        return self._gen


# ---- codec: model integers <-> python metadata values (0 = key absent) -----------------------------------------
def dec_val(key, v, versions=None):
    if key == "plan_name":
        return "" if v == 4 else f"n{v}"
    if key == "plan_type":
        return PLAN_TYPES.get(v, f"t{v}")
    if key == "versions":
        return versions if v == 1 else {"other": v}
    return v


def enc_val(key, x):
    if key == "plan_name" and isinstance(x, str):
        if x == "":
            return 4
        if re.fullmatch(r"n[1-9]\d?", x) and x != "n4":
            return int(x[1:])
        return 99
    if key == "plan_type" and isinstance(x, str):
        for k, s in PLAN_TYPES.items():
            if x == s:
                return k
        if re.fullmatch(r"t[1-9]\d?", x) and int(x[1:]) not in PLAN_TYPES:
            return int(x[1:])
        return 99
    if key == "versions":
        if isinstance(x, dict) and "bluesky" in x:
            return 1
        if isinstance(x, dict) and set(x) == {"other"} and isinstance(x["other"], int):
            return x["other"]
        return 99
    if isinstance(x, int) and not isinstance(x, bool) and 0 < x < 1000:
        return x
    return 99


def dec_map(m, versions=None):
    return {k: dec_val(k, v, versions) for k, v in m.items() if v}


def enc_map(d, universe, drop=()):
    out = {k: 0 for k in universe}
    for k, x in d.items():
        if k in drop:
            continue
        if k not in out:
            out[k] = 0
            out["?" + str(k)] = 99          # a key the model does not know: can never match
            continue
        out[k] = enc_val(k, x)
    return out


def total(m, universe):
    """sparse TLC dump ({} printed as []) -> total map"""
    out = {k: 0 for k in universe}
    if isinstance(m, dict):
        out.update(m)
    return out


# ---- execution of a history on a real RunEngine ---------------------------------------------------------------
_LOOP = {}


def execute(h, universe):
    """h: events (dicts with op and the inputs: md for init/set_md, kw/ident for call_start, o/vmode/nmode for open).
    Returns the observed events, same shape, kind/start/md filled from what the RunEngine did."""
    from bluesky import Msg, RunEngine
    from bluesky.utils import DuringTask
    if "loop" not in _LOOP:
        _LOOP["loop"] = asyncio.new_event_loop()
    zero = {k: 0 for k in universe}
    flags = {"v": "accept", "n": "identity"}

    def validator(md):
        if flags["v"] == "reject":
            raise Rej("validator")

    def normalizer(md):
        if flags["n"] == "reject":
            raise Rej("normalizer")
        if flags["n"] == "rename":
            # the rename is done IN PLACE on what the normalizer is handed (and that object is returned): the RunEngine must
            # hand it a private copy -- nothing written here may reach the metadata sources of later opens
            # (it is handed a ChainMap: writes go to its first map, the key is removed from every layer)
            if "a" in md:
                md["c"] = md["a"]
                for layer in getattr(md, "maps", [md]):
                    layer.pop("a", None)
            return md
        return md

    init = h[0]
    want_versions = init["md"].get("versions", 0) == 1
    md0 = dec_map({k: v for k, v in init["md"].items() if k != "versions"})
    RE = RunEngine(md0, loop=_LOOP["loop"], context_managers=[], during_task=DuringTask(),
                   md_validator=validator, md_normalizer=normalizer)
    versions = RE.md["versions"]            # filled in by the constructor
    if not want_versions:
        del RE.md["versions"]
    docs = []
    RE.subscribe(lambda name, doc: docs.append(doc), "start")

    def raiser(name, doc):
        # nmode "idraise": identity normalizer, and a LATER subscriber fails on the RunStart (the RunEngine does not ignore
        # callback exceptions by default): the run has been opened -- an earlier subscriber holds its RunStart
        if flags["n"] == "idraise":
            raise Boom("subscriber")
    RE.subscribe(raiser, "start")
    obs = [dict(init, md=enc_map(RE.md, universe))]
    i, n = 1, len(h)
    while i < n:
        e = h[i]
        if e["op"] == "set_md":
            new = dec_map(e["md"], versions)
            if i % 2:
                RE.md.clear()
                RE.md.update(new)
            else:
                RE.md = new
            obs.append(dict(e, md=enc_map(RE.md, universe)))
            i += 1
            continue
        if e["op"] != "call_start":
            raise ValueError(f"history not executable at {i}: {e}")
        cs = e
        i += 1
        body = []
        while i < n and h[i]["op"] == "open":
            body.append(h[i])
            i += 1
        ended = i < n and h[i]["op"] == "call_end"

        def plan(cs=cs, body=body):
            obs.append(dict(cs, md=enc_map(RE.md, universe)))
            for b in body:
                flags["v"], flags["n"] = b["vmode"], b["nmode"]
                mark = len(docs)
                exc = None
                try:
                    yield Msg("open_run", **dec_map(b["o"], versions))
                except Rej:
                    exc = "rej"
                except Boom:
                    exc = "boom"
                except Exception as ex:       # noqa
                    exc = "other:" + type(ex).__name__
                new = docs[mark:]
                start = dict(zero)
                if exc == ("boom" if b["nmode"] == "idraise" else None) and len(new) == 1:
                    kind = "start"
                    start = enc_map(new[0], universe, drop=("uid", "time"))
                    if not ("uid" in new[0] and "time" in new[0]):
                        kind = "anomaly:start-without-uid-time"
                elif exc == "rej" and not new:
                    kind = "rejected"
                else:
                    kind = f"anomaly:{exc}:{len(new)}-start-docs"
                flags["v"], flags["n"] = "accept", "identity"
                obs.append(dict(b, kind=kind, start=start, md=enc_map(RE.md, universe), kw=cs["kw"], ident=cs["ident"]))
                if exc in (None, "boom"):
                    yield Msg("close_run")

        g = plan()
        ptype, pname = cs["ident"]["plan_type"], cs["ident"]["plan_name"]
        if ptype == 1:
            g.__name__ = dec_val("plan_name", pname)
            p = g
        else:
            p = PlanObj(g, None if pname == 4 else dec_val("plan_name", pname))
        try:
            RE(p, **dec_map(cs["kw"], versions))
        except Exception as ex:  # noqa
            obs.append(dict(cs, op="escaped:" + type(ex).__name__, md=enc_map(RE.md, universe)))
            return obs
        if ended:
            obs.append(dict(h[i], md=enc_map(RE.md, universe)))
            i += 1
    return obs


def key_of(h):
    """what makes a history distinct: its inputs"""
    out = []
    for e in h:
        sp = lambda m: tuple(sorted((k, v) for k, v in m.items() if v))  # noqa
        if e["op"] in ("init", "set_md"):
            out.append((e["op"], sp(e["md"])))
        elif e["op"] == "call_start":
            out.append(("call", sp(e["kw"]), sp(e["ident"])))
        elif e["op"] == "open":
            out.append(("open", sp(e["o"]), e["vmode"], e["nmode"]))
        else:
            out.append((e["op"],))
    return tuple(out)


def nontrivial(h):
    opens = [e for e in h if e["op"] == "open"]
    if len(opens) >= 2 or any(e["vmode"] == "reject" or e["nmode"] != "identity" for e in opens):
        return True
    md = h[0]["md"]
    for e in opens:
        for k in e["o"]:
            if sum(1 for m in (md, e["o"], e["kw"], e["ident"]) if m.get(k)) >= 2:
                return True
    return False


def compact(e):
    return {k: ({a: b for a, b in v.items() if b} if isinstance(v, dict) else v) for k, v in e.items() if v != ""}


def first_diff(exp, obs):
    for j, (a, b) in enumerate(zip(exp, obs)):
        for f in FIELDS:
            if a[f] != b.get(f):
                return j, f, a[f], b.get(f)
    if len(exp) != len(obs):
        return min(len(exp), len(obs)), "len", len(exp), len(obs)
    return None


def parse_hists(stdout, universe):
    hists = []
    for m in re.finditer(r'<<"HIST", "((?:[^"\\]|\\.)*)">>', stdout):
        raw = json.loads(json.loads('"' + m.group(1) + '"'))
        hists.append([{f: (total(e[f], universe) if f in ("o", "start", "md", "kw", "ident") else e[f]) for f in FIELDS} for e in raw])
    return hists


def clean(t):
    return [{f: e[f] for f in FIELDS} for e in t]


def gap_sigs(stdout):
    """<<"KF-GAP", tid, l, vmode, nmode>> lines -> {trace index: [signature, ...]}"""
    out = {}
    for m in re.finditer(r'<<"KF-GAP", (\d+), (\d+), "(\w*)", "(\w*)">>', stdout):
        who = "validator" if m.group(3) == "reject" else "normalizer"
        out.setdefault(int(m.group(1)) - 1, []).append(f"{KF_SIG}:{who}")
    return out


def check_traces(ctx, cl, labels, v, info=None):
    """cl: observed traces, v: their verdict by MetadataTrace (either variant of the rejected-open step is accepted).
    Reports rejections as violations and as-found steps under the known-finding signature.  Returns number of accepted traces."""
    ctx.add_tlc(v.res, f"MetadataTrace ({len(cl)} traces)")
    for idx, upto in v.rejected.items():
        t = cl[idx]
        ev = t[upto] if upto < len(t) else None
        what = f"implementation trace ({labels[idx]}) rejected by MetadataTrace at event {upto}: {json.dumps(compact(ev)) if ev else None}"
        if info and idx in info:
            what += f"; replay mismatch {info[idx]}"
        sig = f"trace-rejected:{ev['op'] if ev else '?'}:{key_of(t[:upto + 1])[-3:]}"
        ctx.violation(sig, what, {"trace": t, "accepted_prefix": upto})
    if v.invariant:
        k = v.inv_trace_index
        ctx.violation(f"trace-invariant:{v.invariant}:{key_of(cl[k])[-3:] if k is not None else ''}",
                      f"invariant {v.invariant} violated on an implementation trace (index {k})",
                      {"trace": cl[k] if k is not None else None, "state": tojson(v.inv_state) if v.inv_state else None})
    for idx, sigs in gap_sigs(v.res.stdout).items():
        for sg in sigs:
            ctx.violation(sg, f"a rejected open_run advanced the persistent scan_id ({labels[idx]}): opened runs do not get consecutive scan_ids",
                          {"trace": cl[idx]})
    return len(cl) - len(v.rejected) - (1 if v.invariant else 0)


def from_tlc_hist(hist):
    return [{f: (total(tojson(e[f]), TRACE_KEYS) if f in ("o", "start", "md", "kw", "ident") else e[f]) for f in FIELDS} for e in hist]


def run(ctx):
    quick = ctx.quick
    suffix = "small" if quick else "large"
    ctx.rule = ("cases = every maximal history of Metadata_table_*.cfg (one call, one open_run, all layer contents with at most "
                "MaxCells defined (layer, key) cells) and Metadata_hist_*.cfg (<= 3 open_run over several calls), printed by TLC and "
                "replayed on a fresh real RunEngine each; distinct by the full input sequence; non-trivial = a key defined by >= 2 "
                "layers, a rejected open, a non-identity normalizer, or >= 2 opens; plus random larger histories executed on the "
                "RunEngine and validated by TLC (MetadataTrace)")
    # 1. exhaustive model checking of the repaired design (two domains), the same domains with the as-found step (history
    #    dump only: what the code as found is expected to do), and the as-found counterexample search -- concurrently
    cfgs = {"table": f"Metadata_table_{suffix}.cfg", "hist": f"Metadata_hist_{suffix}.cfg", "asfound": "Metadata_asfound.cfg"}
    for k in ("table", "hist"):
        txt = (SD / cfgs[k]).read_text()
        assert 'Variant = "fixed"' in txt and "INVARIANT C17_NoGap\n" in txt
        (ctx.out / f"asfound_{cfgs[k]}").write_text(txt.replace('Variant = "fixed"', 'Variant = "asfound"').replace("INVARIANT C17_NoGap\n", ""))
        cfgs[k + "_asfound"] = str(ctx.out / f"asfound_{cfgs[k]}")
    # random larger histories are executed on the implementation first (they do not depend on TLC) so that their
    # validation by MetadataTrace runs concurrently as well
    rng = random.Random(ctx.seed)
    traces = []
    for _ in range(60 if quick else 1500):
        h = random_history(rng, quick)
        try:
            traces.append(clean(execute(h, TRACE_KEYS)))
        except Exception as ex:  # noqa
            ctx.violation(f"random-exc:{type(ex).__name__}", f"random history raised {ex!r}", {"hist": h})
    with ThreadPoolExecutor(6) as ex:
        jo = ["-Xmx2g"] if quick else None        # small runs start faster with a small heap
        futs = {k: ex.submit(run_tlc, "Metadata", c, spec_dir=SD, tag="C17" + k, workers=1, timeout=3000, java_opts=jo) for k, c in cfgs.items()}
        vt = ex.submit(validate_traces, "MetadataTrace", "MetadataTrace.cfg", traces, SD, ctx.out, tag="C17t", timeout=3000)
        results = {k: f.result() for k, f in futs.items()}
    # 2. every maximal history replayed on a real RunEngine
    n_hist = n_asfound = 0
    t0 = time.time()
    for kind in ("table", "hist"):
        res, cfg = results[kind], cfgs[kind]
        ctx.add_tlc(res, "Metadata exhaustive + history dump " + cfg)
        if not res.ok:
            st = res.trace[-1][1] if res.trace else {}
            ctx.violation(f"spec:{res.violated}", f"Metadata.tla {res.kind} {res.violated} violated on the specification itself ({cfg})",
                          {"last": tojson(st.get("last")), "md": tojson(st.get("md"))})
            return
        resa = results[kind + "_asfound"]
        ctx.add_tlc(resa, "Metadata history dump, as-found step, " + cfg)
        if not resa.ok:
            ctx.machinery(f"as-found variant of {cfg}: unexpected {resa.kind} {resa.violated}")
        hists = parse_hists(res.stdout, TRACE_KEYS)
        asfound = {key_of(h): h for h in parse_hists(resa.stdout, TRACE_KEYS)}
        if not hists or len(asfound) != len(hists):
            ctx.machinery(f"history dumps of {cfg}: {len(hists)} repaired / {len(asfound)} as-found")
        n_hist += len(hists)
        ctx.note(f"{cfg}: {len(hists)} maximal histories")
        for h in hists:
            key = key_of(h)
            nt = nontrivial(h)
            ctx.case(key, nt)
            try:
                obs = execute(h, TRACE_KEYS)
            except Exception as ex:  # noqa
                ctx.violation(f"replay-exc:{type(ex).__name__}:{key}", f"history {key} raised {ex!r} in the harness/engine", {"hist": h})
                continue
            d = first_diff(h, obs)
            if d is not None:
                if first_diff(asfound[key], obs) is None:
                    # exactly the behaviour of the as-found step of the specification: the open finding
                    n_asfound += 1
                    rj = next(e for e in h if e["op"] == "open" and e["kind"] == "rejected")
                    who = "validator" if rj["vmode"] == "reject" else "normalizer"
                    ids = [e["start"]["scan_id"] for e in obs if e["op"] == "open" and e["kind"] == "start"]
                    ctx.violation(f"{KF_SIG}:{who}", f"history {key}: a rejected open_run advanced RE.md['scan_id'] (start documents got scan_id {ids}, "
                                  f"RE.md['scan_id'] ends as {obs[-1]['md']['scan_id']})", {"hist": h, "observed": obs})
                else:
                    ctx.violation(f"replay:{key}", f"history {key}: event {d[0]} field {d[1]}: model {compact({'x': d[2]})['x']} "
                                  f"implementation {compact({'x': d[3]})['x']}", {"hist": h, "observed": obs})
            if nt and len([e for e in h if e["op"] == "open"]) >= (1 if kind == "table" else 2) and h[0]["md"] != h[-1]["md"]:
                ctx.sample([compact(e) for e in h], limit=3)
    ctx.cov["exhaustive"] = True
    ctx.note(f"{n_hist} maximal histories replayed in {time.time() - t0:.1f}s; {n_asfound} behave like the as-found step of the specification")
    # 3. the as-found model: TLC must reach the defect; the counterexample is replayed on the real code
    res = results["asfound"]
    ctx.add_tlc(res, "Metadata as-found variant")
    if res.ok or res.violated != "C17_NoGap":
        ctx.machinery(f"as-found variant of Metadata.tla: expected a C17_NoGap counterexample, got ok={res.ok} violated={res.violated}")
    cex = from_tlc_hist(res.trace[-1][1]["hist"])
    obs = execute(cex, TRACE_KEYS)
    d = first_diff(cex, obs)
    ids = [e["start"]["scan_id"] for e in obs if e["op"] == "open" and e["kind"] == "start"]
    if d is None:
        who = "validator" if cex[-1]["vmode"] == "reject" else "normalizer"
        ctx.violation(f"{KF_SIG}:{who}", f"TLC counterexample of the as-found step reproduces on the real RunEngine: history {key_of(cex)} "
                      f"leaves RE.md['scan_id'] = {obs[-1]['md']['scan_id']} after {len(ids)} opened run(s)", {"hist": cex, "observed": obs})
    else:
        ctx.note(f"as-found counterexample does not reproduce on this tree ({d}): the rejected-open defect appears repaired")
    # 4. the random larger histories, validated by TLC (either variant of the rejected-open step is accepted; the
    #    as-found step is announced by TLC and reported under the known-finding signature)
    for t in traces:
        ctx.case(key_of(t), nontrivial(t))
    ctx.traces(check_traces(ctx, traces, ["random history"] * len(traces), vt.result()))
    ctx.assumptions += ["the default scan_id source is used and the persistent scan_id (if present) is a small positive integer",
                        "validator / normalizer are plain callables that either return or raise; the rename normalizer returns a new dict",
                        "start documents are observed through RunEngine.subscribe(..., 'start'); uid and time are ignored",
                        "metadata values are small integers / short strings (nested values only via the constructor's 'versions' entry)"]


def random_history(rng, quick):
    keys = ["a", "b", "c", "d", "plan_name", "plan_type", "scan_id"]

    def rmap(p, with_versions=False, sid=True):
        m = {k: 0 for k in TRACE_KEYS}
        for k in keys:
            if rng.random() < p and (sid or k != "scan_id"):
                m[k] = rng.randint(1, 5) if k != "plan_name" else rng.randint(1, 6)
        if with_versions and rng.random() < 0.7:
            m["versions"] = 1
        return m
    zero = {k: 0 for k in TRACE_KEYS}
    e0 = {"op": "", "o": zero, "vmode": "", "nmode": "", "kind": "", "start": zero, "md": zero, "kw": zero, "ident": zero}
    h = [dict(e0, op="init", md=rmap(0.4, True))]
    for _ in range(rng.randint(1, 3 if quick else 5)):
        if rng.random() < 0.3:
            h.append(dict(e0, op="set_md", md=rmap(0.4, True)))
        ident = dict(zero, plan_type=rng.choice([1, 2]))
        ident["plan_name"] = rng.choice([1, 2, 3, 5, 6] + ([4] if ident["plan_type"] == 2 else []))
        if ident["plan_type"] == 1 and rng.random() < 0.15:
            ident["plan_name"] = 4       # a generator named ''
        kw = rmap(0.3)
        h.append(dict(e0, op="call_start", kw=kw, ident=ident))
        for _ in range(rng.randint(0, 4 if quick else 6)):
            r = rng.random()
            vm, nm = ("accept", "idraise") if r < 0.1 else ("accept", "identity") if r < 0.45 else ("accept", "rename") if r < 0.65 else ("reject", "identity") if r < 0.85 else ("accept", "reject")
            h.append(dict(e0, op="open", o=rmap(0.3), vmode=vm, nmode=nm, kw=kw, ident=ident))
        h.append(dict(e0, op="call_end"))
    return h


def replay(ctx, obj):
    """./check C17 --replay FILE: re-execute the history / trace of a violation file on the real RunEngine"""
    rp = obj.get("replay") or {}
    h = rp.get("hist") or rp.get("trace")
    if not h:
        print(json.dumps(obj, indent=1)[:4000])
        return 0
    universe = sorted(h[0]["md"])
    obs = execute(h, universe)
    for a, b in zip(h, obs):
        sp = lambda m: {k: v for k, v in m.items() if v}  # noqa
        print(b["op"], "o=", sp(b["o"]), "kw=", sp(b["kw"]), b["vmode"], b["nmode"], "->", b["kind"], "start=", sp(b["start"]), "RE.md=", sp(b["md"]),
              "" if all(a[f] == b.get(f) for f in FIELDS) else f"   (recorded: kind={a['kind']} start={sp(a['start'])} md={sp(a['md'])})")
    return 0
