"""Deterministic single-step, virtual-time asyncio loop with scheduling points (DESIGN.md 4.2).

* exactly one ready handle per `_run_once`;
* virtual time: when nothing is ready and timers exist, time jumps to the earliest timer;
  when nothing at all is pending the loop blocks on the selector so cross-thread
  `call_soon_threadsafe` still works;
* pure-python tasks (`_PyTask`) so a handle can be attributed to the RunEngine's run task;
* scheduling points: "about to run a step of the run task" (kind 'step') and "idle, about to advance
  time" (kind 'idle').  At a point chosen by `pick(point_index, kind)` the run-task handle is set aside,
  a helper thread performs a PUBLIC call, the loop keeps serving only foreign handles until the call has
  landed (helper returned and the ready queue drained), then the held handle is put back at the front.
  This is a legal asyncio schedule (thread-safe callbacks may arrive at any callback boundary).
"""
import asyncio
import heapq
import threading


class StepLoop(asyncio.SelectorEventLoop):
    def __init__(self):
        super().__init__()
        self._vt = 0.0
        self.is_run_step = lambda h: False
        self.active = lambda: True
        self.is_startup = lambda h: False     # the very first handle of the run task (before its first step)
        self.point = 0
        self.pick = lambda p, kind: None      # -> callable to run in the helper thread, or None
        self.on_point = None                  # optional observer (p, kind)
        self.after_inject = None              # called on the loop thread once the injection has landed
        self.hold_time = lambda: False        # while True the virtual clock is frozen (engine paused: the main thread
        #                                       is taking its decision and must not race with timers on the loop)
        self._held = None
        self.inject_block_timeout = 3.0      # generous: a loaded machine may take long to even start the helper thread
        self._inflight_blocked = False
        self._blocked_point_done = False
        self._inflight = False
        self._helper_done = threading.Event()
        self.inject_results = []
        self.set_task_factory(lambda loop, coro, **kw: asyncio.tasks._PyTask(coro, loop=loop, **kw))

    def time(self):
        return self._vt

    # -- injection ---------------------------------------------------------
    def _start_injection(self, fn, p, kind):
        self._inflight = True
        self._helper_done.clear()

        def helper():
            try:
                r = ("ok", fn())
            except BaseException as e:  # noqa
                r = ("exc", type(e).__name__, str(e))
            self.inject_results.append((p, kind, r))
            self._helper_done.set()
            try:
                self.call_soon_threadsafe(lambda: None)
            except RuntimeError:
                pass

        threading.Thread(target=helper, daemon=True).start()

    def _run_once(self):
        while self._scheduled and self._scheduled[0]._cancelled:
            h = heapq.heappop(self._scheduled)
            h._scheduled = False
        if self._inflight and self._helper_done.is_set() and (not self._ready or self._inflight_blocked):
            # the injected call has landed: release the held run step
            self._inflight = False
            self._inflight_blocked = False
            if self.after_inject is not None:
                self.after_inject()
            # scheduling point 'landed': a further request may arrive after this one has landed and before the run
            # task takes its next step (e.g. a second suspender tripping while the state is already 'suspending')
            if self.active():
                p = self.point
                self.point += 1
                if self.on_point:
                    self.on_point(p, "landed")
                fn = self.pick(p, "landed")
                if fn is not None:
                    self._start_injection(fn, p, "landed")
                    return
            if self._held is not None:
                self._ready.appendleft(self._held)
                self._held = None
        frozen = self.hold_time()
        if (not self._ready and not self._scheduled and not self._inflight and not frozen and not self._stopping
                and self.active() and not self._blocked_point_done):
            # nothing to do at all: the run task waits for something external (a suspender's release, a manual status):
            # scheduling point 'blocked' (once per blocked period)
            self._blocked_point_done = True
            p = self.point
            self.point += 1
            if self.on_point:
                self.on_point(p, "blocked")
            fn = self.pick(p, "blocked")
            if fn is not None:
                self._start_injection(fn, p, "blocked")
                return
        block = not self._ready and not self._stopping and (self._inflight or not self._scheduled or frozen)
        if block and self._inflight and self._held is not None:
            # the injected call may itself wait for the run task (e.g. RE.abort() between resume() and the wake-up):
            # if nothing arrives for a while its request has landed and it blocks on run progress -> let the run task go on
            ev = self._selector.select(self.inject_block_timeout)
            if not ev and not self._helper_done.is_set() and not self._ready:
                self._inflight_blocked = True
                self._ready.appendleft(self._held)
                self._held = None
        else:
            ev = self._selector.select(None if block else 0)
        self._process_events(ev)
        if not self._ready and self._scheduled and self._inflight and self._inflight_blocked and not frozen:
            self._vt = max(self._vt, self._scheduled[0]._when)      # the blocked call waits for run progress: time may pass
        if not self._ready and self._scheduled and not self._inflight and not frozen:
            # idle: scheduling point before advancing time
            if self.active():
                p = self.point
                self.point += 1
                if self.on_point:
                    self.on_point(p, "idle")
                fn = self.pick(p, "idle")
                if fn is not None:
                    self._start_injection(fn, p, "idle")
                    return
            self._vt = max(self._vt, self._scheduled[0]._when)
        while self._scheduled and self._scheduled[0]._when <= self._vt and (not self._inflight or self._inflight_blocked) and not frozen:
            h = heapq.heappop(self._scheduled)
            h._scheduled = False
            if not h._cancelled:
                self._ready.append(h)
        if self._ready:
            self._blocked_point_done = False
            h = self._ready[0]
            if not h._cancelled and not self._inflight and self.is_startup(h):
                # scheduling point 'startup': the run task has been created but has not taken its first step (the engine's
                # state is still 'idle'); it does not consume a numbered point
                if self.on_point:
                    self.on_point(-1, "startup")
                fn = self.pick(-1, "startup")
                if fn is not None:
                    self._held = self._ready.popleft()
                    self._start_injection(fn, -1, "startup")
                    return
            if not h._cancelled and not self._inflight and self.is_run_step(h) and self.active():
                p = self.point
                self.point += 1
                if self.on_point:
                    self.on_point(p, "step")
                fn = self.pick(p, "step")
                if fn is not None:
                    self._held = self._ready.popleft()
                    self._start_injection(fn, p, "step")
                    return
            if self._inflight and not self._inflight_blocked and self.is_run_step(h):
                # a run step became ready while an injection is in flight (e.g. a timer fired before):
                # keep it back until the injection has landed
                if self._held is None:
                    self._held = self._ready.popleft()
                else:
                    self._ready.rotate(-1)
                return
            h = self._ready.popleft()
            if not h._cancelled:
                h._run()
            h = None
