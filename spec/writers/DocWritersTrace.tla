--------------------------- MODULE DocWritersTrace ---------------------------
(* Batch validation of executions of the real JSONWriter / JSONLinesWriter.        *)
(* TRACE_FILE: ndjson, one trace per line:                                         *)
(*   [w, pre |-> [shape, recs, term], ev |-> sequence of [name, tok, file]]        *)
(* After every callback call the harness parses the real file into the abstraction *)
(* of DocWriters.tla (file = [shape, recs, term]); each call must be a step of the *)
(* specification producing exactly that file.                                      *)
EXTENDS DocWriters, IOUtils

Traces == ndJsonDeserialize(IOEnv.TRACE_FILE)

VARIABLES tid, l
tvars == <<vars, tid, l>>

TraceInit == /\ tid \in 1..Len(Traces)
             /\ \E r \in BOOLEAN : InitWith(Traces[tid].w, r, Traces[tid].pre)
             /\ l = 1
             /\ TLCSet(tid, 1)

Ev == Traces[tid].ev[l]
Max(a, b) == IF a > b THEN a ELSE b

\* JSONLinesWriter is not bound to the run protocol: any document at any time
Loose == /\ w = "jsonl" /\ Ev.name = "other" /\ ~inrun
         /\ Call("other") /\ UNCHANGED <<run, inrun, rundocs>>

TraceNext == /\ l <= Len(Traces[tid].ev)
             /\ \/ Ev.name = "start" /\ (Start \/ StartOver)
                \/ Ev.name = "other" /\ Other
                \/ Ev.name = "stop" /\ Stop
                \/ Loose
             /\ hist'[Len(hist')] = Ev
             /\ l' = l + 1
             /\ UNCHANGED tid
             /\ TLCSet(tid, Max(TLCGet(tid), l + 1))

TraceSpec == TraceInit /\ [][TraceNext]_tvars

KFReport == KF_C34_1 => PrintT(<<"KF1", tid>>)

Progress(t) == TLCGet(t)
TraceAccepted ==
    \A t \in 1..Len(Traces) :
        \/ Progress(t) = Len(Traces[t].ev) + 1
        \/ PrintT(<<"REJECTED", t, Progress(t)>>) /\ FALSE
=============================================================================
