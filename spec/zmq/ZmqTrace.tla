------------------------------ MODULE ZmqTrace ------------------------------
(* Batch validation of executions of the REAL bluesky.callbacks.zmq.Publisher and  *)
(* RemoteDispatcher (over the in-memory zmq stand-in) against ZmqChannel.tla.       *)
(* TRACE_FILE: ndjson, one trace per line:                                          *)
(*   [dpfx, strict, ev |-> sequence of [op, f |-> [kind, pfx, name, tok], dl, stopped]] *)
(* "send": a Publisher was called / the adversary sent a raw frame;                 *)
(* "recv": what the dispatcher did with it (documents delivered to the subscribed   *)
(* callback while handling it, identified by (name, token of the equal document     *)
(* that was published); whether start() ended with an exception).                   *)
EXTENDS ZmqChannel, IOUtils

Traces == ndJsonDeserialize(IOEnv.TRACE_FILE)

VARIABLES tid, l
tvars == <<vars, tid, l>>

TraceInit == /\ tid \in 1..Len(Traces)
             /\ \E r \in BOOLEAN : InitWith(Traces[tid].dpfx, Traces[tid].strict, r)
             /\ l = 1
             /\ TLCSet(tid, 1)

Ev == Traces[tid].ev[l]
Max(a, b) == IF a > b THEN a ELSE b

TraceNext == /\ l <= Len(Traces[tid].ev)
             /\ \/ Ev.op = "send" /\ Put(Ev.f)
                \/ Ev.op = "recv" /\ Recv /\ log'[Len(log')] = [f |-> Ev.f, dl |-> Ev.dl, stopped |-> Ev.stopped]
             /\ l' = l + 1
             /\ UNCHANGED tid
             /\ TLCSet(tid, Max(TLCGet(tid), l + 1))

TraceSpec == TraceInit /\ [][TraceNext]_tvars

KFReport == KF_C33_1 => PrintT(<<"KF1", tid>>)

Progress(t) == TLCGet(t)
TraceAccepted ==
    \A t \in 1..Len(Traces) :
        \/ Progress(t) = Len(Traces[t].ev) + 1
        \/ PrintT(<<"REJECTED", t, Progress(t)>>) /\ FALSE
=============================================================================
