"""Check context: verdicts, known findings, evidence.  See DESIGN.md §4.7, §8, §10."""
from __future__ import annotations

import json
import os
import re
import time
from pathlib import Path

ROOT = Path(__file__).resolve().parent.parent
# a run against a scratch copy of bluesky (VERIF_REPO_SRC = <worktree>/src: seeded changes) keeps its output, caches and evidence
# apart from those of the tree under verification: /verif/evidence is only ever written by runs against /repo itself
_SCRATCH = os.environ.get("VERIF_REPO_SRC", "/repo/src").rstrip("/") != "/repo/src"
OUT = Path(os.environ["VERIF_OUT"]) if os.environ.get("VERIF_OUT") else ROOT / ("out/scratch" if _SCRATCH else "out")
EVID = OUT / "evidence" if _SCRATCH else ROOT / "evidence"
KF_FILE = ROOT / "KNOWN_FINDINGS.json"
REPO = Path(os.environ.get("VERIF_REPO", "/repo"))


class MachineryError(RuntimeError):
    pass


def load_findings():
    out = []
    if KF_FILE.exists():
        out += json.loads(KF_FILE.read_text())["findings"]
    for f in sorted((ROOT / "findings.d").glob("*.json")) if (ROOT / "findings.d").exists() else []:
        out += json.loads(f.read_text())["findings"]
    return out


class Ctx:
    def __init__(self, prop_id: str, tier: str, seed: int):
        self.prop = prop_id
        self.tier = tier
        self.seed = seed
        self.t0 = time.time()
        self.out = OUT / prop_id
        self.out.mkdir(parents=True, exist_ok=True)
        self.violations = []        # dicts: sig, what, replay
        self.known_seen = {}        # finding id -> count
        self.known_examples = {}
        self.cov = {
            "states": 0, "transitions": 0, "traces_validated_against_impl": 0,
            "evaluations": 0, "samples": [], "exhaustive": False,
        }
        self._distinct = set()
        self.rule = ""
        self.assumptions = []
        self.notes = []
        self.coverage_actions = {}
        self._findings = [f for f in load_findings() if f["property"] == prop_id]

    # ---- bookkeeping -----------------------------------------------------
    @property
    def quick(self):
        return self.tier == "quick"

    def add_tlc(self, res, label=None):
        """account a TLCResult"""
        self.cov["states"] += res.distinct or res.generated
        self.cov["transitions"] += res.generated
        for k, v in res.coverage.items():
            a, b = self.coverage_actions.get(k, (0, 0))
            self.coverage_actions[k] = (a + v[0], b + v[1])
        if label:
            self.notes.append(f"{label}: {res.generated} generated / {res.distinct} distinct, depth {res.depth}, {res.wall_s:.1f}s")

    def case(self, key, nontrivial=True):
        """one evaluated case (implementation execution / replayed row); key identifies distinctness"""
        self.cov["evaluations"] += 1
        if nontrivial:
            self._distinct.add(key if isinstance(key, (str, int, tuple)) else json.dumps(key, sort_keys=True, default=str))

    def traces(self, n=1):
        self.cov["traces_validated_against_impl"] += n

    def sample(self, obj, limit=4):
        if len(self.cov["samples"]) < limit:
            self.cov["samples"].append(obj)

    def note(self, s):
        self.notes.append(s)

    # ---- verdicts --------------------------------------------------------
    def violation(self, sig: str, what: str, replay=None):
        """Report that the property failed on a case.  sig: specific signature of the failing
        input/site/history (matched against KNOWN_FINDINGS.json)."""
        for f in self._findings:
            if f.get("status") == "open" and re.fullmatch(f["sig_regex"], sig):
                self.known_seen[f["id"]] = self.known_seen.get(f["id"], 0) + 1
                self.known_examples.setdefault(f["id"], sig)
                return False
        self.violations.append({"sig": sig, "what": what, "replay": replay})
        return True

    def machinery(self, msg):
        raise MachineryError(msg)

    # ---- finish ----------------------------------------------------------
    def finish(self, level="model_checking"):
        wall = time.time() - self.t0
        cov = dict(self.cov)
        cov["distinct_nontrivial"] = len(self._distinct)
        cov["rule"] = self.rule
        cov["coverage_actions"] = {k: list(v) for k, v in sorted(self.coverage_actions.items())}
        cov["notes"] = self.notes
        cov["known_findings_seen"] = {k: {"count": v, "example": self.known_examples[k]} for k, v in self.known_seen.items()}
        open_f = [f for f in self._findings if f.get("status") == "open"]
        cov["known_findings_not_reproduced"] = [f["id"] for f in open_f if f["id"] not in self.known_seen]
        if not cov["samples"]:
            cov["samples"] = ["(no sample recorded)"]
        ev = {
            "property_id": self.prop, "tier": self.tier, "seed": self.seed, "level": level,
            "coverage": cov, "assumptions": self.assumptions, "wall_s": round(wall, 2),
            "violations": len(self.violations),
        }
        EVID.mkdir(parents=True, exist_ok=True)
        (EVID / f"{self.prop}.json").write_text(json.dumps(ev, indent=1, default=str) + "\n")
        for f in open_f:
            if f["id"] in self.known_seen:
                print(f"KNOWN-FINDING: property={self.prop} {f['id']}: {f['what']} (seen {self.known_seen[f['id']]}x, e.g. {self.known_examples[f['id']]})")
            else:
                print(f"NOTE: known finding {f['id']} did not reproduce in this run (tier={self.tier})")
        rc = 0
        vdir = OUT / "violations" / self.prop
        if self.violations:
            vdir.mkdir(parents=True, exist_ok=True)
            seen = set()
            for n, v in enumerate(self.violations):
                if v["sig"] in seen and n > 20:
                    continue
                seen.add(v["sig"])
                p = vdir / f"{n}.json"
                p.write_text(json.dumps(v, indent=1, default=str))
                print(f"VIOLATION property={self.prop} replay={p}  # {v['sig']}: {v['what'][:300]}")
                if n >= 20:
                    print(f"... {len(self.violations) - n - 1} more violations suppressed")
                    break
            rc = 1
        print(f"[{self.prop}] tier={self.tier} seed={self.seed} states={cov['states']} transitions={cov['transitions']} "
              f"impl_traces={cov['traces_validated_against_impl']} evaluations={cov['evaluations']} "
              f"distinct={cov['distinct_nontrivial']} violations={len(self.violations)} wall={wall:.1f}s")
        return rc
