CONSTANTS
  Batches = {}
  MaxEv = 0
  NStreams = 2
  MaxSD = 0
  NRes = 3
  MaxIdx = 24
  MaxLen = 0
  Canonical = FALSE
  MaxRedesc = 0
SPECIFICATION TraceSpec
INVARIANT C46_RowsAtStop
INVARIANT C46_RowsConserved
INVARIANT C46_CacheBelowBatch
INVARIANT C46_ConsumedOnceAtStop
INVARIANT C46_RangesConserved
INVARIANT C46_ArrayLengthAtStop
INVARIANT C46_RowsCountConsumed
POSTCONDITION TraceAccepted
