"""C29 -- adaptive_scan and tune_centroid terminate and stay within their range.

spec/adaptive/Adaptive.tla transcribes both loops over exact rationals (multi-limb numerators over a common
denominator, BigNat.tla); the detector is the environment (each reading any of {0,1,2,5}); comparisons that are exact
ties may go either way (floating point).  TLC checks on every behaviour: visited positions within [start, stop]
direction-aware (never beyond stop), no backward step before start, tune_centroid's final move within range, the
variant (base advances by >= min step, or the step shrinks by the threshold factor; tune: each pass divides the step
by step_factor) and the iteration bound derived from it -- with NO state constraint on finite instances, so TLC
finishing is the termination proof for them.  Every maximal TLC history is replayed by driving the REAL plan
generators with the scripted readings (co-simulation against the trie of specified behaviours, tolerance 1e-9);
random response functions (smooth, noisy, step, constant, peaked) run on the real plans with the iteration bound as a
cap, checked in python and validated step by step by TLC in 10^-6 fixed point (AdaptiveTrace.tla).

Assurance: model_checking -- bounded-exhaustive on the specification (<= 7 visits, 4 readings, both directions,
backstep / snake on and off) + conformance of every replayed history and of every recorded random execution.
"""
import json
import math
import random
import re

from harness.adaptive_helpers import (FAMILIES, bound, build_trie, cosimulate, drive, drive_re, opt_key, params_of,
                                      random_params, response, trace_record, validate_traces)
from harness.tlc import run_tlc, write_cfg, SPEC

SD = SPEC / "adaptive"
DESIGN_REF = "DESIGN.md section 7 (C29)"
TECHNIQUE = "TLA+ (exact rationals) checked by TLC; history replay on the real plan generators; batch trace validation"
TOL = 1e-9
# short single-worker runs: serial GC and C1-only JIT start faster and do not fight for cores with other checks
SMALL_JVM = ["-XX:-UseParallelGC", "-XX:+UseSerialGC", "-XX:TieredStopAtLevel=1", "-Xss64m"]
LONG_JVM = ["-XX:-UseParallelGC", "-XX:+UseSerialGC", "-Xss64m"]       # single worker (history printing), full JIT

BASE_CONSTS = {"Plan": "adaptive", "Den": 4, "StartN": 0, "StopN": 8, "MinStepN": 1, "MaxStepN": 4, "TargetN": 4,
               "ThrN": 4, "ThrD": 5, "Num": 3, "SfN": 2, "SfD": 1, "Readings": {0, 1, 2, 5}, "MaxIter": 5,
               "Fuzz": True, "Flips": {False, True}, "Backsteps": {False, True}, "Snakes": {False, True}}

AS_INV = ["TypeOK", "AS_VisitedInRange", "AS_NotBeforeStart", "AS_StepBounded", "IterBound"]
TC_INV = ["TypeOK", "TC_VisitedInRange", "TC_ParkInRange", "TC_PassInRange", "IterBound"]


def consts(**kw):
    c = dict(BASE_CONSTS)
    c.update(kw)
    return c


def as_bound(c):
    """AS_Bound / TC_Bound of Adaptive.tla (to choose MaxIter above it for the unconstrained runs)"""
    if c["Plan"] == "adaptive":
        L = c["StopN"] - c["StartN"]
        m0 = min(2 * c["MinStepN"], c["MaxStepN"] - c["MinStepN"])
        a, b, K = c["MaxStepN"], c["MinStepN"], 0
        while a * c["ThrN"] >= b * c["ThrD"]:
            a, b, K = a * c["ThrN"], b * c["ThrD"], K + 1
        return -(-(2 * L + c["MaxStepN"] - c["MinStepN"]) // m0) * (K + 1) + K
    a, b, j = c["StopN"] - c["StartN"], c["MinStepN"] * (c["Num"] - 1), 0
    while a >= b:
        a, b, j = a * c["SfD"], b * c["SfN"], j + 1
    return c["Num"] * j


def tlc_model(ctx, label, c, dump, props=True, small=True):
    kind = c["Plan"]
    inv = AS_INV if kind == "adaptive" else TC_INV
    prop = ["AS_Variant"] if kind == "adaptive" else ["TC_StepShrinks"]
    cfg = write_cfg(ctx.out / f"{label}.cfg", c, invariants=inv, properties=prop if props else (),
                    constraints=["DumpHist"] if dump else ())
    res = run_tlc("Adaptive", cfg, spec_dir=SD, tag="C29", workers=1 if dump or small else "auto", timeout=3000,
                  java_opts=SMALL_JVM if small else LONG_JVM)
    ctx.add_tlc(res, f"Adaptive.tla {label}")
    if not res.ok:
        st = res.trace[-1][1] if res.trace else {}
        ctx.violation(f"spec:{kind}:{res.violated}",
                      f"Adaptive.tla ({label}) {res.kind} {res.violated} violated on the specification itself: "
                      f"opt={st.get('opt')} it={st.get('it')}", {"tlc_trace": str(res.trace)[:4000], "constants": str(c)})
        return None, []
    hists = []
    if dump:
        for m in re.finditer(r'<<"HIST", "((?:[^"\\]|\\.)*)">>', res.stdout):
            hists.append(json.loads(json.loads('"' + m.group(1) + '"')))
        if not hists:
            ctx.machinery(f"no histories printed by {label}")
    return res, hists


def replay_histories(ctx, kind, c, hists):
    """every maximal TLC history: its readings are fed to the real plan generator; every step the implementation
    takes must be a step of the specification (trie of all histories; exact ties may go either way)"""
    tries = build_trie(kind, c, hists, c["MaxIter"])
    bad = 0
    for h in hists:
        opt = h["opt"]
        key = opt_key(opt)
        script = [e["I"] for e in h["hist"]]
        p = params_of(kind, c, opt)
        run = drive(kind, p, script=script, cap=10 * c["MaxIter"] + 50)
        sig_opt = f"flip={int(opt['flip'])},backstep={int(opt['backstep'])},snake={int(opt['snake'])}"
        ctx.case((kind, key, tuple(script), h["done"]), len(set(script)) > 1 or len(script) > 2)
        if run.status.startswith("raised"):
            ctx.violation(f"replay:{kind}:{sig_opt}:raised:{type(run.error).__name__}",
                          f"{kind} raised {run.error!r} for readings {script} ({p})", {"params": p, "script": script})
            continue
        why = cosimulate(tries[key], run, TOL * max(1.0, abs(p["stop"] - p["start"])))
        if why:
            bad += 1
            ctx.violation(f"replay:{kind}:{sig_opt}:readings={script}",
                          f"{kind} {p} with readings {script}: {why}; implementation visited {run.xs} park={run.park}",
                          {"params": p, "script": script, "visited": [float(x) for x in run.xs], "park": run.park,
                           "why": why})
        elif len(script) >= 4 and len(set(script)) > 2:
            ctx.sample({"plan": kind, "params": p, "readings": script, "visited": [float(x) for x in run.xs],
                        "park": None if run.park is None else float(run.park), "status": run.status})
    return bad


def check_run(ctx, kind, p, run, fam, nonneg=True):
    """C29 itself on one implementation execution (python side; TLC re-checks it on the recorded trace)"""
    lo, hi = min(p["start"], p["stop"]), max(p["start"], p["stop"])
    d = 1 if p["stop"] >= p["start"] else -1
    tag = f"{kind}:{fam}:dir={d}:" + (f"backstep={int(p['backstep'])}" if kind == "adaptive" else f"snake={int(p['snake'])}")
    slack = 1e-9 * max(1.0, hi - lo)
    ok = True
    if run.status == "cap":
        ok = False
        ctx.violation(f"no-termination:{tag}", f"{kind} {p} ({fam}) did not terminate within the bound of "
                      f"{bound(kind, p)} visits", {"params": p, "family": fam, "visited_tail": [float(x) for x in run.xs[-8:]]})
    elif run.status != "done":
        ok = False
        ctx.violation(f"raised:{tag}:{run.status}", f"{kind} {p} ({fam}) raised {run.error!r}", {"params": p, "family": fam})
    for k, x in enumerate(run.xs):
        x = float(x)
        inside = (lo - slack <= x <= hi + slack) and (kind != "adaptive" or (p["stop"] - x) * d > 0)
        if not inside or math.isnan(x):
            ok = False
            ctx.violation(f"out-of-range:{tag}:visit", f"{kind} {p} ({fam}) visited {x} (visit {k + 1}) outside "
                          f"[{p['start']}, {p['stop']}]", {"params": p, "family": fam, "visited": [float(v) for v in run.xs[:k + 1][-8:]]})
            break
    if kind == "tune" and nonneg and run.park is not None:
        pk = float(run.park)
        if not (lo - slack <= pk <= hi + slack):
            ok = False
            ctx.violation(f"out-of-range:{tag}:park", f"tune_centroid {p} ({fam}) parked the motor at {pk}, outside "
                          f"[{lo}, {hi}]", {"params": p, "family": fam, "park": pk})
    return ok


def run(ctx):
    quick = ctx.quick
    rng = random.Random(ctx.seed)
    ctx.rule = ("(a) every maximal history of Adaptive.tla (readings in {0,1,2,5}, <= MaxIter visits, both directions, "
                "backstep/snake on and off, tie outcomes) replayed on the real plan generator; distinct = (plan, options, "
                "reading sequence, terminated), non-trivial = not a constant reading sequence; (b) random response "
                "functions x random parameters on the real plans, distinct = (plan, family, parameters)")
    # 1. model checking + history generation.
    #    "unbounded" instances: the range is short enough that every behaviour ends by itself; they are explored with NO
    #    bound on the number of visits (MaxIter is set above the proven bound, so it never cuts anything): TLC finishing
    #    == every behaviour terminates, and IterBound states the computed bound as an invariant.
    #    "cut" instances (thorough tier): longer ranges, behaviours cut after MaxIter = 7 visits.
    A_UNB = consts(Plan="adaptive", StopN=5, MaxStepN=4, TargetN=8)            # adaptive_scan(0, 5/4, 1/4, 1, 2)
    T_UNB = consts(Plan="tune", Den=2, StartN=0, StopN=4, MinStepN=1, Num=3)   # tune_centroid(0, 2, 1/2, num=3, sf=2)
    if quick:       # quick tier: three readings (differences 1, 4, 5); the thorough tier uses {0, 1, 2, 5}
        A_UNB["Readings"] = {0, 1, 5}
        T_UNB["Readings"] = {0, 1, 5}
    models = [("adaptive_scan_unbounded", A_UNB, True), ("tune_centroid_unbounded", T_UNB, True)]
    if not quick:
        models += [
            # adaptive_scan(0, 5/4, 1/4, 1, 2, threshold=9/10): other threshold, longer retry chains
            ("adaptive_scan_unbounded_b", consts(Plan="adaptive", StopN=5, MaxStepN=4, TargetN=8, ThrN=9, ThrD=10), True),
            # adaptive_scan(0, 2, 1/4, 1, 1), behaviours cut after 7 visits
            ("adaptive_scan_cut7", consts(Plan="adaptive", MaxIter=7), False),
            # adaptive_scan(1/2, 7/2, 1/2, 5/4, 2, threshold=9/10), cut after 6 visits (start # 0, other step ratio)
            ("adaptive_scan_cut6_b", consts(Plan="adaptive", Den=4, StartN=2, StopN=14, MinStepN=2, MaxStepN=5, TargetN=8,
                                            ThrN=9, ThrD=10, MaxIter=6), False),
            # tune_centroid(0, 4, 1/2, num=3, step_factor=2, snake=True), cut after 7 visits
            ("tune_centroid_cut7", consts(Plan="tune", Den=2, StartN=0, StopN=8, MinStepN=1, Num=3, MaxIter=7,
                                          Flips={False}, Snakes={True}), False),
            # tune_centroid(7, 1, 1, num=4, step_factor=3/2), cut after 7 visits (non-dyadic steps, descending)
            ("tune_centroid_cut7_b", consts(Plan="tune", Den=1, StartN=1, StopN=7, MinStepN=1, Num=4, SfN=3, SfD=2, MaxIter=7,
                                            Flips={True}, Snakes={False}), False)]
    spec_ok = True
    cover = {}
    for label, c, unbounded in models:
        if unbounded:
            c["MaxIter"] = as_bound(c) + 1
        res, hists = tlc_model(ctx, label, c, dump=True, small=unbounded)
        if res is None:
            spec_ok = False
            continue
        if unbounded:
            ctx.note(f"{label}: explored without any bound on the number of visits (MaxIter {c['MaxIter']} > proven bound "
                     f"{c['MaxIter'] - 1}); longest behaviour {max(len(h['hist']) for h in hists)} visits")
        replay_histories(ctx, c["Plan"], c, hists)
        # vacuity guard: the interesting branches must have been taken by some history of this instance
        nb = sum(1 for h in hists if h["nback"] > 0)
        nt = sum(1 for h in hists if any(e["gt"] for e in h["hist"]))
        npass = sum(1 for h in hists if h["pass"] > 0)
        npark = sum(1 for h in hists if h["parked"]["set"])
        ctx.note(f"{label}: {len(hists)} histories; " + (f"with a backward step {nb}, with a visit exactly at stop (tie) {nt}"
                 if c["Plan"] == "adaptive" else f"with a second pass {npass}, with a final move {npark}"))
        cover[c["Plan"]] = [a + b for a, b in zip(cover.get(c["Plan"], [0, 0, 0, 0]), [nb, nt, npass, npark])]
    if spec_ok and (cover["adaptive"][0] == 0 or cover["tune"][2] == 0 or cover["tune"][3] == 0):
        ctx.machinery(f"vacuous exploration: no backward step / second pass / final move in any history ({cover})")
    if not quick and spec_ok:
        # the same as a liveness property under weak fairness
        c = dict(A_UNB)
        cfg = write_cfg(ctx.out / "liveness.cfg", c, spec="FairSpec", properties=["Terminates"])
        res = run_tlc("Adaptive", cfg, spec_dir=SD, tag="C29l", timeout=3000)
        ctx.add_tlc(res, "Adaptive.tla liveness Terminates under WF(Next)")
        if not res.ok:
            ctx.violation("spec:adaptive:Terminates", "liveness property Terminates violated on Adaptive.tla",
                          {"tlc_trace": str(res.trace)[:4000]})
    ctx.cov["exhaustive"] = spec_ok

    # 3. random response functions on the real plans: property checked directly, traces validated by TLC
    n_rand = 60 if quick else 700
    recs, meta = [], []
    for i in range(n_rand):
        kind = "adaptive" if i % 2 == 0 else "tune"
        fam = FAMILIES[(i // 2) % len(FAMILIES)]
        p = random_params(kind, rng)
        fn = response(fam, rng, min(p["start"], p["stop"]), max(p["start"], p["stop"]))
        b = bound(kind, p)
        if b > (400 if quick else 1500):      # keep traces short; the parameters are re-drawn, not the verdict
            continue
        run_ = drive(kind, p, fn=fn, cap=b + 5)
        ctx.case((kind, fam, json.dumps(p, sort_keys=True)), fam != "constant")
        check_run(ctx, kind, p, run_, fam)
        if i % 6 == 0:      # the same execution on a real RunEngine must visit the same positions
            r2 = drive_re(kind, p, fn, cap=b + 5)
            if (r2.status, [float(x) for x in r2.xs], r2.park) != (run_.status, [float(x) for x in run_.xs], run_.park):
                ctx.machinery(f"hand-driven generator and RunEngine execution disagree for {kind} {p}: "
                              f"{run_.status} {run_.xs[:6]} vs {r2.status} {r2.xs[:6]}")
        if run_.status in ("done", "cap"):
            recs.append(trace_record(kind, p, run_))
            meta.append((kind, fam, p, run_))
    # signals of either sign / non-finite readings: termination and visited range only
    extra = 0
    for i in range(10 if quick else 120):
        kind = "adaptive" if i % 2 == 0 else "tune"
        p = random_params(kind, rng)
        b = bound(kind, p)
        if b > 400:
            continue
        mode = ["negative", "nan", "inf"][i % 3] if kind == "adaptive" else "negative"
        sd = rng.randrange(1 << 30)

        def fn(x, k, mode=mode, sd=sd):
            r = random.Random(sd * 7919 + k)
            if mode == "negative" or r.random() < 0.7:
                return r.randint(-1000, 1000)
            return float("nan") if mode == "nan" else float("inf")
        run_ = drive(kind, p, fn=fn, cap=b + 5)
        ctx.case((kind, mode, json.dumps(p, sort_keys=True)))
        check_run(ctx, kind, p, run_, mode, nonneg=False)
        if run_.status == "done" and mode == "negative" and kind == "tune":
            recs.append(trace_record(kind, p, run_, nonneg=False))
            meta.append((kind, mode, p, run_))
        extra += 1
    v = validate_traces("AdaptiveTrace", "AdaptiveTrace.cfg", recs, SD, ctx.out, tag="C29t", java_opts=SMALL_JVM)
    ctx.add_tlc(v.res, "AdaptiveTrace")
    # (TLC stops at the first invariant violation; the traces it had not finished by then are not judged)
    ctx.traces(0 if v.invariant else len(recs) - len(v.rejected))
    for idx, upto in ({} if v.invariant else v.rejected).items():
        kind, fam, p, run_ = meta[idx]
        d = 1 if p["stop"] >= p["start"] else -1
        opt = f"backstep={int(p['backstep'])}" if kind == "adaptive" else f"snake={int(p['snake'])}"
        ctx.violation(f"trace-rejected:{kind}:{fam}:dir={d}:{opt}",
                      f"{kind} {p} ({fam}): the recorded positions leave the loop semantics of AdaptiveTrace.tla at visit "
                      f"{upto}: {[float(x) for x in run_.xs[max(0, upto - 3):upto + 2]]} (park {run_.park})",
                      {"params": p, "family": fam, "accepted_visits": upto, "visited": [float(x) for x in run_.xs],
                       "readings": [vv[1] for vv in run_.visits], "park": run_.park})
    if v.invariant:
        idx = v.inv_trace_index
        kind, fam, p, run_ = meta[idx] if idx is not None else ("?", "?", {}, None)
        ctx.violation(f"trace-invariant:{v.invariant}:{kind}:{fam}",
                      f"{v.invariant} violated on a recorded execution of {kind} {p} ({fam})",
                      {"params": p, "family": fam, "state": str(v.inv_state)[:1500]})
    ctx.note(f"random executions: {len(recs)} recorded traces ({sum(len(r['ev']) for r in recs)} visits), {extra} executions with "
             "negative / non-finite readings (termination and visited range only)")

    # 4. parameter-domain probe: threshold is not validated by adaptive_scan (see notes/C29.md, KF-C29-1)
    for thr in (1.2, 1.5):
        p = {"start": 0.0, "stop": 10.0, "min": 0.1, "max": 1.0, "target": 1.0, "backstep": True, "thr": thr}
        run_ = drive("adaptive", p, fn=lambda x, k: 5, cap=3000)
        ctx.case(("adaptive", "threshold-probe", thr))
        if run_.status == "cap":
            ctx.violation(f"no-termination:adaptive:threshold>1:constant-signal:thr={thr}",
                          f"adaptive_scan(start=0, stop=10, min_step=0.1, max_step=1, target_delta=1, backstep=True, "
                          f"threshold={thr}) on a constant detector never terminates: after {len(run_.xs)} visits it is still "
                          f"re-visiting {sorted(set(float(x) for x in run_.xs[-4:]))}",
                          {"params": p, "visited_tail": [float(x) for x in run_.xs[-6:]]})
        elif run_.status == "done":
            check_run(ctx, "adaptive", p, run_, "threshold-probe")
    ctx.assumptions += [
        "adaptive_scan parameters: 0 < min_step < max_step (enforced by the plan), target_delta > 0, 0 < threshold < 1 "
        "(threshold > 1 is reported separately as KF-C29-1); tune_centroid: num >= 2, step_factor > 1, min_step > 0",
        "the motor reads back exactly its set point; one detector; readings are real numbers (non-finite readings are "
        "only run for adaptive_scan, python-side checks)",
        "TLC trace validation uses 10^-6 fixed point with tolerance 1e-4 on positions; integer-valued readings",
        "plans are driven by answering their messages by hand (cross-checked against a real RunEngine on a sample)"]


def replay(ctx, obj):
    """./check C29 --replay FILE: re-execute the failing case of a violation file on the real plan"""
    rp = obj.get("replay") or obj
    p = rp.get("params")
    if not p:
        print(json.dumps(obj, indent=1)[:4000])
        return 0
    kind = "adaptive" if "max" in p else "tune"
    if "script" in rp:
        run_ = drive(kind, p, script=rp["script"], cap=1000)
    else:
        print("(random response function: re-run ./check C29 with the same VERIF_SEED to regenerate it)")
        print(json.dumps(obj, indent=1)[:4000])
        return 0
    print(f"{kind} {p}\nreadings {rp['script']}\nvisited  {[float(x) for x in run_.xs]}\nfinal move {run_.park}  status {run_.status}")
    print("reported:", obj.get("what"))
    return 0
