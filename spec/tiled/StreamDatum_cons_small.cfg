CONSTANTS
  Part = "cons"
  Off = 1
  CBounds <- CB_none
  MaxChunk = 3
  MaxCLen = 2
  MaxConsume = 2
  MaxDLen = 2
  Mults = {0, 1, 2, 3}
SPECIFICATION Spec
INVARIANT C36_ChunksTile
INVARIANT C36_ChunkSizeRespected
INVARIANT C36_SeqMapTotal
INVARIANT C36_JoinShape
POSTCONDITION DumpCons
