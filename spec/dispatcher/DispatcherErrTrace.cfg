CONSTANTS
  Dom = "cfg"
  NCb = 0
  Names = {}
  PlanIds = {}
  MaxRaise = 0
  DeliverAlls = {}
SPECIFICATION TraceSpec
INVARIANT C19_OnceInOrder
INVARIANT C19_InvocationOrder
INVARIANT C19_IgnoreDeliversAll
INVARIANT C19_PropagateDelivers
INVARIANT C19_IgnoreDoesNotStopPlan
INVARIANT C19_PropagateEndsPlan
INVARIANT C19_RunClosedFail
INVARIANT C19_RunClosedForAll
INVARIANT KFReport
POSTCONDITION TraceAccepted
