"""C38 -- truncate_json_overflow makes any numeric payload JSON-safe without changing safe values.

spec/jsontrunc/JsonTrunc.tla abstracts numbers to value classes (in-range int, +-(2^53-1) boundary, beyond, integral /
fractional floats, floats next to +-1.8e308, +-inf, nan, bool, str) x carriers (python, numpy int64/uint64/float32/
float64; scalar, 0-d array, element of a 1-d array) inside container skeletons of depth <= 2, and states which output
classes the statement allows for each.  TLC enumerates every skeleton/leaf assignment and checks the specification's
own consistency; the harness turns every abstract case into 3-5 concrete structures, calls the real function,
classifies the returned structure back (token list of the shape, class of every leaf, "equal to the input leaf") and
TLC judges every record (JsonTruncTrace), together with records from random deeper structures.

Assurance: the specification is an executable oracle over the exhaustively enumerated abstract domain (numbers >= 2^31
never enter TLC); conformance of the real function on every enumerated case with several representatives per class and
on random deeper structures, every verdict computed by TLC.
"""
import json
import math
import random
import re
import sys
from collections.abc import Mapping

from harness.tlc import run_tlc, SPEC

SD = SPEC / "jsontrunc"
DESIGN_REF = "DESIGN.md section 7 (C38), section 8"
LIM = 2 ** 53 - 1
FMAX = sys.float_info.max

# representatives per class, per carrier family ("int": py/i64, "u": u64, "f": py/f64, "f32")
REPS = {
    "int_in": {"py": [0, -7, 123456789, 2 ** 31, LIM - 1, -(LIM - 1)], "i64": [0, -7, 123456789, 2 ** 31, LIM - 1],
               "u64": [0, 5, 2 ** 40, LIM - 1]},
    "int_bnd_p": {"py": [LIM], "i64": [LIM], "u64": [LIM]},
    "int_bnd_n": {"py": [-LIM], "i64": [-LIM]},
    "int_big_p": {"py": [LIM + 1, LIM + 2, 2 ** 60, 2 ** 64, 2 ** 100], "i64": [LIM + 1, LIM + 2, 2 ** 60, 2 ** 63 - 1],
                  "u64": [LIM + 1, 2 ** 60, 2 ** 63, 2 ** 64 - 1]},
    "int_big_n": {"py": [-LIM - 1, -LIM - 2, -(2 ** 60), -(2 ** 64), -(2 ** 100)], "i64": [-LIM - 1, -LIM - 2, -(2 ** 60), -(2 ** 63)]},
    "fint_in": {"py": [0.0, 3.0, -(2.0 ** 52), float(LIM), -float(LIM)], "f64": [0.0, 3.0, -(2.0 ** 52), float(LIM)],
                "f32": [0.0, 3.0, -1024.0, 2.0 ** 24, 2.0 ** 52]},
    "fint_big_p": {"py": [2.0 ** 53, 2.0 ** 60, 1e22, 1e300], "f64": [2.0 ** 53, 2.0 ** 60, 1e22, 1e300],
                   "f32": [2.0 ** 53, 2.0 ** 60, 3.0e38]},
    "fint_big_n": {"py": [-(2.0 ** 53), -(2.0 ** 60), -1e22, -1e300], "f64": [-(2.0 ** 53), -(2.0 ** 60), -1e22, -1e300],
                   "f32": [-(2.0 ** 53), -(2.0 ** 60), -3.0e38]},
    "ffrac": {"py": [0.5, -3.25, 1e-300, 2.0 ** 51 + 0.5, 123.456], "f64": [0.5, -3.25, 1e-300, 2.0 ** 51 + 0.5, 123.456],
              "f32": [0.5, -3.25, 1e-30, 123.456]},
    "fmax_p": {"py": [1.7976e308, FMAX, 1.79769e308], "f64": [1.7976e308, FMAX, 1.79769e308]},
    "fmax_n": {"py": [-1.7976e308, -FMAX, -1.79769e308], "f64": [-1.7976e308, -FMAX, -1.79769e308]},
    "inf_p": {"py": [math.inf], "f64": [math.inf], "f32": [math.inf]},
    "inf_n": {"py": [-math.inf], "f64": [-math.inf], "f32": [-math.inf]},
    "nan": {"py": [math.nan], "f64": [math.nan], "f32": [math.nan]},
    "bool": {"py": [True, False]},
    "str": {"py": ["", "abc", "1e400", "NaN", "9007199254740993"]},
}
NREPS = max(len(v) for d in REPS.values() for v in d.values())


def jopts(ctx):
    """JVM options: short runs are dominated by JIT/GC thread start-up on a many-core box"""
    return ["-XX:TieredStopAtLevel=1", "-XX:CICompilerCount=2", "-XX:ParallelGCThreads=2"] if ctx.quick else ["-XX:ParallelGCThreads=4"]


def violating_cases(stdout, var="cid"):
    """TLC -continue output -> {case index: first violated invariant}; works for initial and later states"""
    bad = {}
    ms = list(re.finditer(r"Invariant (\S+) is violated", stdout))
    for n, m in enumerate(ms):
        end = ms[n + 1].start() if n + 1 < len(ms) else len(stdout)
        mm = re.compile(r"/\\ %s = (\d+)" % var).search(stdout, m.end(), end)
        if mm:
            bad.setdefault(int(mm.group(1)), m.group(1))
    return bad


def np_dtype(dt):
    import numpy as np
    return {"i64": np.int64, "u64": np.uint64, "f32": np.float32, "f64": np.float64}[dt]


def rep_value(cls, dt, r):
    vals = REPS[cls][dt]
    return vals[r % len(vals)]


def concrete_leaf(leaf, r):
    """(value handed to the function, reference python/numpy scalar for the equality test)"""
    import numpy as np
    v = rep_value(leaf["cls"], leaf["dt"], r)
    if leaf["dt"] == "py":
        return v, v
    s = np_dtype(leaf["dt"])(v)
    if leaf["box"] == "arr0":
        return np.array(v, dtype=np_dtype(leaf["dt"])), s
    return s, s


def shape_of(x, key="", toks=None, lv=None):
    """pre-order token list and leaves of a python structure (mapping keys sorted; lists, tuples, >=1-d arrays are sequences)"""
    import numpy as np
    if toks is None:
        toks, lv = [], []
    if isinstance(x, Mapping):
        toks.append({"t": "map", "n": len(x), "key": key})
        for k in sorted(x, key=str):
            shape_of(x[k], str(k), toks, lv)
    elif isinstance(x, (list, tuple)) or (isinstance(x, np.ndarray) and x.ndim >= 1):
        toks.append({"t": "seq", "n": len(x), "key": key})
        for v in x:
            shape_of(v, "", toks, lv)
    else:
        toks.append({"t": "leaf", "n": 0, "key": key})
        lv.append(x)
    return toks, lv


def classify_out(x):
    import numpy as np
    if isinstance(x, np.ndarray) and x.ndim == 0:
        x = x[()]
    if isinstance(x, (bool, np.bool_)):
        return "bool"
    if isinstance(x, str):
        return "str"
    if isinstance(x, (int, np.integer)):
        return "int_in" if -LIM <= int(x) <= LIM else "int_big"
    if isinstance(x, (float, np.floating)):
        f = float(x)
        if math.isnan(f):
            return "nan"
        if math.isinf(f):
            return "inf"
        if f == math.floor(f):
            return "fint_in" if -LIM <= f <= LIM else "fint_big"
        return "ffrac"
    return "other"


def same_value(out, ref):
    """exact equality of the returned leaf with the input leaf (no float32/float64 rounding in the comparison)"""
    import numpy as np
    from fractions import Fraction
    if isinstance(out, np.ndarray) and out.ndim == 0:
        out = out[()]
    num = (int, float, np.integer, np.floating)
    try:
        if isinstance(ref, str) or isinstance(out, str):
            return type(out) is type(ref) and out == ref
        if isinstance(ref, (bool, np.bool_)) or isinstance(out, (bool, np.bool_)):
            return isinstance(ref, (bool, np.bool_)) and isinstance(out, (bool, np.bool_)) and bool(out) == bool(ref)
        if not (isinstance(out, num) and isinstance(ref, num)):
            return False
        fo, fr = (float(out) if isinstance(out, (float, np.floating)) else None), (float(ref) if isinstance(ref, (float, np.floating)) else None)
        if fr is not None and math.isnan(fr):
            return fo is not None and math.isnan(fo)
        if (fo is not None and not math.isfinite(fo)) or (fr is not None and not math.isfinite(fr)):
            return fo == fr
        return Fraction(fo if fo is not None else int(out)) == Fraction(fr if fr is not None else int(ref))
    except Exception:  # noqa: BLE001
        return False


def observe(obj, leaves, refs):
    """call the real function and classify the result -> abstract record"""
    from bluesky.utils import truncate_json_overflow
    sin, _ = shape_of(obj)
    try:
        out = truncate_json_overflow(obj)
    except Exception as ex:  # noqa: BLE001
        return {"sin": sin, "sout": [], "raised": True, "exc": type(ex).__name__,
                "leaves": [dict(lf, ocls="none", same=False) for lf in leaves]}
    sout, olv = shape_of(out)
    if sout != sin or len(olv) != len(leaves):
        return {"sin": sin, "sout": sout, "raised": False,
                "leaves": [dict(lf, ocls="none", same=False) for lf in leaves]}
    return {"sin": sin, "sout": sout, "raised": False,
            "leaves": [dict(lf, ocls=classify_out(o), same=same_value(o, rf)) for lf, o, rf in zip(leaves, olv, refs)]}


def random_structure(rng, depth):
    """random nested structure (depth <= 4): returns (toks, kinds, leaves) in the skeleton vocabulary"""
    toks, kinds, leaves = [], [], []
    dts = ["py", "py", "py", "i64", "u64", "f32", "f64"]

    def free_leaf():
        dt = rng.choice(dts)
        cls = rng.choice(sorted(c for c in REPS if dt in REPS[c]))
        box = "scalar" if dt == "py" else rng.choice(["scalar", "scalar", "arr0"])
        return {"cls": cls, "dt": dt, "box": box}

    def node(key, d):
        r = rng.random()
        if d == 0 or r < 0.35:
            toks.append({"t": "leaf", "n": 0, "key": key}); kinds.append(""); leaves.append(free_leaf())
        elif r < 0.5:
            dt = rng.choice(["i64", "u64", "f32", "f64"])
            n = rng.randint(0, 4)
            toks.append({"t": "seq", "n": n, "key": key}); kinds.append("arr")
            for _ in range(n):
                cls = rng.choice(sorted(c for c in REPS if dt in REPS[c]))
                toks.append({"t": "leaf", "n": 0, "key": ""}); kinds.append(""); leaves.append({"cls": cls, "dt": dt, "box": "elem"})
        elif r < 0.75:
            n = rng.randint(0, 3)
            toks.append({"t": "seq", "n": n, "key": key}); kinds.append(rng.choice(["list", "tuple"]))
            for _ in range(n):
                node("", d - 1)
        else:
            n = rng.randint(0, 3)
            toks.append({"t": "map", "n": n, "key": key}); kinds.append("dict")
            for k in sorted(rng.sample(["a", "b", "c", "k", "m", "z"], n)):
                node(k, d - 1)

    node("", depth)
    return toks, kinds, leaves


def build(toks, kinds, leaves, r, empty_dt="f64"):
    """token list + container kinds + leaves -> (concrete structure, reference value of every leaf);
    a 1-d array takes its dtype from its own elements"""
    import numpy as np
    pos = {"t": 0, "l": 0}
    refs = []

    def node():
        i = pos["t"]
        pos["t"] += 1
        tok, kind = toks[i], kinds[i]
        if tok["t"] == "leaf":
            leaf = leaves[pos["l"]]
            pos["l"] += 1
            val, ref = concrete_leaf(leaf, r)
            refs.append(ref)
            return tok["key"], val, leaf
        children = [node() for _ in range(tok["n"])]
        if tok["t"] == "map":
            return tok["key"], {k: v for k, v, _ in children}, None
        vals = [v for _, v, _ in children]
        if kind == "arr":
            dt = children[0][2]["dt"] if children else empty_dt
            return tok["key"], np.array(vals, dtype=np_dtype(dt)), None
        return tok["key"], (tuple(vals) if kind == "tuple" else vals), None

    _, obj, _ = node()
    return obj, refs


def run(ctx):
    cfg = "JsonTrunc_small.cfg" if ctx.quick else "JsonTrunc_large.cfg"
    cases_file = ctx.out / "cases.ndjson"
    res = run_tlc("JsonTrunc", cfg, spec_dir=SD, env={"CASES_OUT": cases_file}, tag="C38", timeout=3000, java_opts=jopts(ctx))
    ctx.add_tlc(res, "JsonTrunc exhaustive " + cfg)
    if not res.ok:
        st = res.trace[-1][1] if res.trace else {}
        ctx.violation(f"spec:{res.violated}", f"JsonTrunc.tla invariant {res.violated} violated on the specification itself: {st}",
                      {"tlc_trace": str(res.trace)[:2000]})
        return
    ctx.cov["exhaustive"] = True
    ctx.rule = ("every (skeleton, carrier, class assignment) enumerated by TLC is made concrete with R representatives per class "
                "(R = 3 quick / all, up to 6, thorough) and run through truncate_json_overflow; records = classified results, judged by "
                "TLC; distinct = distinct concrete inputs (skeleton, leaves, representative), non-trivial = some leaf out of range "
                "or carried by numpy; plus random structures of depth <= 4")
    nrep = 3 if ctx.quick else NREPS
    records = {}        # abstract record (json) -> example
    order = []

    def add(rec, example, key, nontrivial):
        ctx.case(key, nontrivial)
        exc = rec.pop("exc", None)
        k = json.dumps(rec, sort_keys=True)
        if k not in records:
            records[k] = {"rec": rec, "example": example, "exc": exc, "count": 0}
            order.append(k)
        records[k]["count"] += 1

    ncases = 0
    for ln in open(cases_file):
        c = json.loads(ln)
        ncases += 1
        leaves = c["leaves"]
        nontriv = any(lf["dt"] != "py" or lf["cls"] in ("int_big_p", "int_big_n", "fint_big_p", "fint_big_n", "fmax_p", "fmax_n",
                                                          "inf_p", "inf_n") for lf in leaves)
        for r in range(nrep if leaves else 1):
            obj, refs = build(c["toks"], c["kinds"], leaves, r, c["adt"] if c["adt"] != "none" else "f64")
            rec = observe(obj, leaves, refs)
            add(rec, repr(obj)[:300], (c["id"], c["adt"], json.dumps(leaves, sort_keys=True), r), nontriv)
    if not ncases:
        ctx.machinery("JsonTrunc.tla dumped no cases")
    rng = random.Random(ctx.seed)
    for i in range(400 if ctx.quick else 8000):
        toks, kinds, leaves = random_structure(rng, rng.randint(1, 4))
        r = rng.randrange(NREPS)
        obj, refs = build(toks, kinds, leaves, r)
        rec = observe(obj, leaves, refs)
        add(rec, repr(obj)[:300], ("rnd", i), True)
    tf = ctx.out / "observed.ndjson"
    with open(tf, "w") as fh:
        for k in order:
            fh.write(json.dumps(records[k]["rec"]) + "\n")
    tres = run_tlc("JsonTruncTrace", "JsonTruncTrace.cfg", spec_dir=SD, env={"TRACE_FILE": tf}, tag="C38t", timeout=3000,
                   extra=["-continue"], java_opts=jopts(ctx))
    ctx.add_tlc(tres, "JsonTruncTrace")
    bad = {}
    if not tres.ok:
        if tres.kind != "invariant":
            ctx.machinery(f"JsonTruncTrace failed: {tres.violated}\n{tres.stdout[-1500:]}")
        bad = violating_cases(tres.stdout)
        if not bad:
            ctx.machinery(f"JsonTruncTrace reported {tres.violated} but no case could be identified\n{tres.stdout[-1500:]}")
    for k, inv in sorted(bad.items()):
        e = records[order[k - 1]]
        rec = e["rec"]
        if inv == "T_Returns":
            carriers = sorted({f"{lf['dt']}/{lf['box']}" for lf in rec["leaves"]})
            sig, what = f"raises:{e['exc']}:{'+'.join(carriers)}", f"truncate_json_overflow raised {e['exc']} on {e['example']}"
        elif inv == "T_SameShape":
            sig, what = f"shape:{json.dumps(rec['sin'])[:80]}", f"shape changed for {e['example']}: tokens {rec['sin']} -> {rec['sout']}"
        else:
            wrong = [lf for lf in rec["leaves"] if True]
            sig = "leaf:" + ";".join(f"{lf['cls']}/{lf['dt']}/{lf['box']}->{lf['ocls']}{'=' if lf['same'] else ''}" for lf in wrong)[:160]
            what = f"output of {e['example']} violates {inv}: leaves {rec['leaves']}"
        ctx.violation(sig, what, {"input_repr": e["example"], "record": rec, "violated": inv, "times": e["count"]})
    seen_kf = set()
    nkf = set()
    for m in re.finditer(r'<<"KF", (\d+), "(\w+)", (\d+)>>', tres.stdout):
        k, name, i = int(m.group(1)), m.group(2), int(m.group(3))
        if (k, name, i) in seen_kf:
            continue
        seen_kf.add((k, name, i))
        nkf.add(k)
        e = records[order[k - 1]]
        if name == "arr0d":
            lf = [x for x in e["rec"]["leaves"] if x["box"] == "arr0"][0]
            sig = f"kf:arr0d:{e['exc']}:{lf['dt']}"
            what = f"0-d array: truncate_json_overflow raised {e['exc']} on {e['example']}"
        else:
            lf = e["rec"]["leaves"][i - 1]
            sig = f"kf:{name}:{lf['dt']}:{lf['box']}:{lf['cls']}"
            what = f"{lf['dt']} {lf['box']} of class {lf['cls']} returned unchanged ({lf['ocls']}) in {e['example']}"
        ctx.violation(sig, what, {"input_repr": e["example"], "record": e["rec"]})
    ctx.traces(sum(records[k]["count"] for n, k in enumerate(order, 1) if n not in bad and n not in nkf))
    for k in order[:: max(1, len(order) // 3)][:3]:
        ctx.sample({"input": records[k]["example"], "record": records[k]["rec"]})
    ctx.note(f"{ncases} abstract cases x {nrep} representatives + random structures -> {len(order)} distinct abstract records judged by TLC")
    ctx.assumptions += [
        "'integral value' is read as: integer-typed outputs must lie within +-(2^53-1), and finite inputs with zero fractional part "
        "beyond the range must come out integral within it; an infinite input only has to come out finite or NaN "
        "(the as-found +-1.7976e308 is accepted although the function itself would truncate it again)",
        "'unchanged' means equal value and same class (int stays int, float stays float); container types may change (tuple/array -> list)",
        "numpy classifies and compares its own scalars correctly",
    ]
