--------------------------- MODULE DispatcherTrace ---------------------------
(* Batch validation of implementation traces against Dispatcher.tla.            *)
(* TRACE_FILE: ndjson, one trace per line = sequence of events                   *)
(*   [op, fn, name, tok, sig, to]  as logged by the harness from a real RunEngine *)
(* Each event must be explained by the corresponding Dispatcher action AND the   *)
(* observed result (token issued / set of callables that received the document)  *)
(* must equal the specified one.  All invariants of Dispatcher are evaluated in   *)
(* every state of every accepted trace.                                           *)
EXTENDS Dispatcher, IOUtils

Traces == ndJsonDeserialize(IOEnv.TRACE_FILE)

VARIABLES tid, l
tvars == <<vars, tid, l>>

AsSet(seq) == {seq[i] : i \in 1..Len(seq)}

TraceInit == /\ Init
             /\ tid \in 1..Len(Traces)
             /\ l = 1
             /\ TLCSet(tid, 1)

Ev == Traces[tid][l]

Step ==
    \/ Ev.op = "subscribe" /\ Subscribe(Ev.fn, Ev.name) /\ out'.tok = Ev.tok
    \/ Ev.op = "unsubscribe" /\ Unsubscribe(Ev.tok)
    \/ Ev.op = "call_start" /\ CallStart
    \/ Ev.op = "call_sub" /\ CallSub(Ev.fn, Ev.name) /\ out'.tok = Ev.tok
    \/ Ev.op = "plan_subscribe" /\ PlanSubscribe(Ev.fn, Ev.name) /\ out'.tok = Ev.tok
    \/ Ev.op = "plan_unsubscribe" /\ PlanUnsubscribe(Ev.tok)
    \/ Ev.op = "emit" /\ Emit(Ev.sig) /\ out'.to = AsSet(Ev.to)
    \/ Ev.op = "call_end" /\ CallEnd

TraceNext == /\ l <= Len(Traces[tid])
             /\ Step
             /\ l' = l + 1
             /\ UNCHANGED tid
             /\ TLCSet(tid, l + 1)

TraceSpec == TraceInit /\ [][TraceNext]_tvars

\* every trace consumed completely; otherwise print how far each one got
Progress(t) == TLCGet(t)
TraceAccepted ==
    LET bad == {t \in 1..Len(Traces) : Progress(t) # Len(Traces[t]) + 1}
    IN /\ \A t \in bad : PrintT(<<"REJECTED", t, Progress(t)>>)
       /\ bad = {}
=============================================================================
