CONSTANTS
  MaxEv = 4
  MaxKeys = 2
  MutMode = "asfound"
  FrameMode = "asfound"
  LateSlots = {"after", "end"}
  WithModern = TRUE
  WithHist = FALSE
SPECIFICATION Spec
INVARIANT TypeOK
INVARIANT C35_InputsNeverModified_KF
INVARIANT C35_ExactlyOneStreamDatum
INVARIANT C35_RangesMatchEvent_KF
INVARIANT C35_InternalValuesKept
INVARIANT C35_SchemaValid
INVARIANT C35_ResourceBeforeDatum
