"""C45 -- collected stream assets line up with the stream's event numbering.

spec/collect/Collect.tla models RunBundler.collect / _pack_external_assets / _pack_seq_nums_into_stream_datum /
declare_stream / rewind / close_run for detectors that only write stream assets: per-detector frame progressions,
collects of one detector or of several together (minimum index passed down, one stream_datum [last, min) per detector,
seq_nums [ctr, ctr + width), counter advanced once per collect), the refusals (group not declared, widths differing,
datums for only some detectors), checkpoints and pause/resume rewinds.  The clauses of the statement are monitors over
the emitted documents: C45_IndexContiguous, C45_SeqContiguous, C45_Aligned, C45_SameMinimum, C45_NumEvents,
C45_MustRaise (+ the action property C45_LinedUp).  TLC checks them exhaustively over all progressions / cadences
within the bounds.  Binding:
  * spec -> code: every maximal history printed by TLC is executed on a real RunEngine (open_run, declare_stream,
    kickoff, collect ..., complete, close_run) with protocol-only WritesStreamAssets + Collectable + Flyable detectors
    following the script; get_index answers, indices passed down, emitted stream_resource / stream_datum documents,
    raised exceptions and the stop document are compared operation by operation;
  * code -> spec: seeded random longer runs (3 detectors, up to 3 streams, permuted message order, sync / async
    detectors, lazy resources, devices ignoring the index, checkpoints, Msg('pause') + RE.resume()) are recorded and
    validated by TLC in one batch (CollectTrace, Mode = conform: every event must be the specified step with the recorded
    results) and once more with the monitors alone (Mode = monitor), all C45 invariants evaluated in every state.
At a rewind the specification offers the as-found step (counters back to the checkpoint) and the repaired one; an
execution explained only by the as-found step is reported under KF-C45-1.

Assurance: bounded-exhaustive model checking of the specification (2 detectors, <= 3 progressions of 0..3 frames,
<= 3 collects, 2 streams, 1 pause, 1 checkpoint in the thorough tier) plus conformance of every explored history and of
random longer runs on the real RunEngine in both directions.
"""
import contextlib
import io
import json
import logging
import os
import random
import re
import time
from concurrent.futures import ProcessPoolExecutor, ThreadPoolExecutor

from harness.tlc import SPEC, run_tlc, write_cfg
from harness.tracecheck import validate_traces

SD = SPEC / "collect"
DESIGN_REF = "DESIGN.md section 7 (C45), section 8"
TECHNIQUE = "TLA+ model (Collect.tla) checked by TLC; histories replayed on a real RunEngine; recorded runs validated by TLC"
KF = "rewind:seq-counter-rolled-back-after-collect"            # KF-C45-1
INVS = ["C45_IndexContiguous", "C45_SeqContiguous", "C45_Aligned", "C45_SameMinimum", "C45_NumEvents", "C45_MustRaise"]
PROPS = ["C45_LinedUp"]
REACH = ["Reach_NoNewFrames", "Reach_WidthRaise", "Reach_Undeclared", "Reach_TwoStreams", "Reach_Unequal",
         "C45_SeqContiguous_Strict", "C45_NumEvents_Strict"]
HIST_RE = re.compile(r'<<"HIST", "((?:[^"\\]|\\.)*)">>')
JENV = {"_JAVA_OPTIONS": "-XX:ParallelGCThreads=2"}


def configs(quick):
    """(label, constants, GreedySets, LazyModes) of the exhaustive + replay-generation runs"""
    base = dict(ND=2, NS=2, MaxF=2, MaxEnv=2, MaxCol=2, MaxPause=0, MaxCkpt=0, MaxCfg=0, WrongGroup=True, Choice="both")
    if quick:
        return [("2 streams, 0..2 frames x 2, 2 collects", dict(base), "{{}}", "{FALSE}"),
                ("1 stream, 0..1 frames x 2, 2 collects, pause + checkpoint + configure", dict(base, NS=1, MaxF=1, MaxPause=1, MaxCkpt=1, MaxCfg=1), "{{}}", "{FALSE}"),
                ("devices ignoring the index, lazy resources", dict(base, NS=1, MaxEnv=1), "{{1}, {2}}", "{TRUE}")]
    return [("1 stream, 0..3 frames x 3, 3 collects", dict(base, NS=1, MaxF=3, MaxEnv=3, MaxCol=3), "{{}}", "{FALSE}"),
            ("2 streams, 0..2 frames x 2, 3 collects", dict(base, MaxCol=3), "{{}}", "{FALSE}"),
            ("2 streams, 0..2 frames x 2, 2 collects, pause + checkpoint + configure", dict(base, MaxPause=1, MaxCkpt=1, MaxCfg=1), "{{}}", "{FALSE}"),
            ("1 stream, 0..2 frames x 2, 3 collects, pause + checkpoint", dict(base, NS=1, MaxCol=3, MaxPause=1, MaxCkpt=1), "{{}}", "{FALSE}"),
            ("3 detectors, 2 streams, 0..1 frames x 2, 2 collects", dict(base, ND=3, MaxF=1), "{{}}", "{FALSE}"),
            ("devices ignoring the index, lazy / eager resources", dict(base, NS=1), "{{1}, {2}, {1, 2}}", "{TRUE, FALSE}")]


# ---------------------------------------------------------------------------------------------------------------
# executing operation lists on the real RunEngine

def _quiet():
    logging.getLogger("bluesky").setLevel(logging.CRITICAL + 1)
    return contextlib.redirect_stdout(io.StringIO())


def run_input(inp):
    """inp = (nd, ns, greedy, lazy, use_async, ops) -> (events, problems, exception text)"""
    from harness.collect_helpers import execute
    nd, ns, greedy, lazy, use_async, ops = inp
    failing = any(o["op"] == "collect" and o.get("wrong") for o in ops)
    with _quiet():
        s = execute(ops, nd, ns, greedy=greedy, lazy=lazy, use_async=use_async, kickoff=not failing)
    return s.events, s.problems, (f"{type(s.exc).__name__}: {s.exc}"[:300] if s.exc else "")


def _chunk(inputs):
    return [run_input(i) for i in inputs]


def run_inputs(inputs, procs):
    if procs <= 1 or len(inputs) < 400:
        return _chunk(inputs)
    n = max(50, len(inputs) // (procs * 8))
    chunks = [inputs[i:i + n] for i in range(0, len(inputs), n)]
    with ProcessPoolExecutor(max_workers=procs) as ex:
        return [r for part in ex.map(_chunk, chunks) for r in part]


def in_key(h):
    """the input side of a history: detector kinds + operations without results"""
    return (tuple(h[0]["ds"]), h[0]["lz"]) + tuple((e["op"], e["s"], tuple(e["ds"]), tuple(e["f"])) for e in h[1:]
                                                   if e["op"] != "close" and e["alt"] != "replay")


def ops_of(h):
    declared = {}
    ops = []
    for e in h[1:]:
        if e["op"] == "close" or e["alt"] == "replay":
            continue
        o = {"op": e["op"], "s": e["s"], "ds": list(e["ds"]), "f": list(e["f"])}
        if e["op"] == "declare":
            declared[e["s"]] = set(e["ds"])
        if e["op"] == "collect" and declared.get(e["s"]) != set(e["ds"]):
            o["wrong"] = True
        ops.append(o)
    return ops


def differs(exp, obs):
    """first difference between a specified history and the observed events, or None"""
    if len(exp) != len(obs):
        return ("length", f"{len(exp)} operations specified, {len(obs)} observed: {[e['op'] for e in obs]}")
    for a, b in zip(exp, obs):
        for k in ("op", "s", "ds", "f"):
            if a[k] != b[k]:
                return (f"{a['op']}:{k}", f"specified {k}={a[k]!r}, observed {b[k]!r}")
        if a["op"] == "collect":
            if (a["alt"] == "replay") != bool(b.get("replay")):
                return ("collect:replayed", f"collect({a['s']}, {a['ds']}): specified {'processed again after the rewind' if a['alt'] == 'replay' else 'issued by the plan'}, "
                                            f"observed the opposite")
            for k in ("err", "rep", "cap", "docs"):
                if a[k] != b[k]:
                    return (f"collect:{k}", f"collect({a['s']}, {a['ds']}): specified {k}={a[k]!r}, observed {b[k]!r}")
        if a["op"] == "close":
            if a["status"] != b["status"]:
                return ("close:status", f"specified exit status {a['status']}, observed {b['status']}")
            if a["status"] == "success" and a["ne"] != b["ne"]:
                return ("close:num_events", f"specified num_events={a['ne']}, observed {b['ne']}")
    return None


def brief(h):
    out = []
    for e in h:
        if e["op"] == "init":
            out.append(f"init(greedy={e['ds']},lazy={e['lz']})")
        elif e["op"] in ("declare", "collect"):
            out.append(f"{e['op']}({e['s']},{e['ds']})")
        elif e["op"] == "env":
            out.append(f"env{e['f']}")
        elif e["op"] != "close":
            out.append(e["op"])
    return " ".join(out)


def do_replay(ctx, hists_by_cfg, procs):
    """hists_by_cfg: list of (nd, ns, [history]).  Every distinct input is executed once and must equal one of the
    behaviours the specification has for that input."""
    jobs = []       # (input, [alternatives])
    for nd, ns, hists in hists_by_cfg:
        groups = {}
        for h in hists:
            groups.setdefault(in_key(h), []).append(h)
        for k, alts in groups.items():
            h = alts[0]
            jobs.append(((nd, ns, tuple(h[0]["ds"]), h[0]["lz"], False, ops_of(h)), alts))
    results = run_inputs([j[0] for j in jobs], procs)
    stats = {"inputs": len(jobs), "with_datums": 0, "raise": 0, "raise_partial": 0, "undeclared": 0, "no_new_frames": 0, "two_streams": 0,
             "pause": 0, "asfound_alt": 0, "kf": 0, "joint_uneven": 0, "replayed_collect_with_docs": 0}
    for (inp, alts), (events, problems, exc) in zip(jobs, results):
        h0 = alts[0]
        nontriv = any(d["k"] == "datum" for e in h0 for d in e["docs"])
        key = json.dumps([inp[0], inp[1], list(inp[2]), inp[3], [(o["op"], o["s"], o["ds"], o["f"]) for o in inp[5]]])
        ctx.case(key, nontriv)
        stats["with_datums"] += nontriv
        stats["raise"] += any(e["err"] for e in h0)
        stats["pause"] += any(e["op"] == "pause" for e in h0)
        # the situations the model must reach (vacuity), read off the histories TLC printed
        stats["raise_partial"] += any(e["err"] and e["docs"] for e in h0)
        stats["undeclared"] += any(e["err"] and not e["cap"] for e in h0)
        stats["no_new_frames"] += any(e["op"] == "collect" and not e["err"] and len(e["ds"]) > 1 and not e["docs"] and i > 2 for i, e in enumerate(h0))
        stats["two_streams"] += sum(v > 0 for v in h0[-1]["ne"].values()) > 1
        stats["replayed_collect_with_docs"] += any(e["alt"] == "replay" and e["docs"] for h in alts for e in h)
        stats["asfound_alt"] += any(e["alt"] == "asfound" for h in alts for e in h)
        stats["joint_uneven"] += any(e["op"] == "collect" and len(set(e["rep"])) > 1 and e["docs"] for e in h0)
        info = {"input": {"nd": inp[0], "ns": inp[1], "greedy": list(inp[2]), "lazy": inp[3], "ops": inp[5]},
                "observed": events, "specified": alts, "exception": exc}
        if problems:
            ctx.violation(f"replay-shape:{problems[0]}:{brief(h0)}", f"{brief(h0)}: {problems}", info)
            continue
        obs = events
        diffs = [differs(h, obs) for h in alts]
        ok = [h for h, d in zip(alts, diffs) if d is None]
        if ok:
            if all(any(e["alt"] == "asfound" for e in h) for h in ok):
                stats["kf"] += 1
                ctx.violation(f"{KF}:replay", f"{brief(h0)}: the real RunEngine follows the as-found rewind: stream datums "
                              f"{[(d['d'], d['i0'], d['i1'], d['s0'], d['s1']) for e in obs for d in e['docs'] if d['k'] == 'datum']}, "
                              f"num_events {obs[-1]['ne']}", info)
            if nontriv and any(e["op"] == "collect" and len(e["ds"]) > 1 for e in h0):
                ctx.sample({"history": brief(h0), "documents": [[(d["k"], d["d"], d["i0"], d["i1"], d["s0"], d["s1"]) for d in e["docs"]] for e in obs if e["op"] == "collect"],
                            "num_events": obs[-1]["ne"]}, limit=3)
            continue
        where, what = diffs[0]
        ctx.violation(f"replay:{where}:{brief(h0)}", f"history [{brief(h0)}] executed on the real RunEngine: {what}"
                      + (f" (exception: {exc})" if exc else ""), info)
    return stats


# ---------------------------------------------------------------------------------------------------------------
# random longer runs

def random_input(rng, nd=3, ns=3):
    from harness.collect_helpers import STREAMS
    dets = list(range(1, nd + 1))
    rng.shuffle(dets)
    nstreams = rng.choice([1, 1, 2, 2, 3])
    groups, rest = [], dets[:]
    for k in range(nstreams):
        if not rest:
            break
        n = rng.randint(1, len(rest) if k == nstreams - 1 else max(1, len(rest) - (nstreams - 1 - k)))
        if rng.random() < 0.3:
            n = min(n, 1)
        groups.append(sorted(rest[:n]))
        rest = rest[n:]
    decl = {STREAMS[i]: g for i, g in enumerate(groups)}
    declared = sorted(d for g in groups for d in g)
    greedy = tuple(sorted(rng.sample(declared, 1))) if rng.random() < 0.15 else ()
    lazy = rng.random() < 0.5
    use_async = rng.random() < 0.35
    ops = [{"op": "declare", "s": s, "ds": g, "f": []} for s, g in decl.items()]
    # a detector that is alone in its stream may also hand back events (PagedDet: not WritesStreamAssets); its collects then
    # carry return_payload=True/False -- the specification is the same (one detector, no index passed down)
    paged_streams = set()
    for o in ops:
        if len(o["ds"]) == 1 and o["ds"][0] not in greedy and rng.random() < 0.4:
            o["paged"] = True
            paged_streams.add(o["s"])
    careful = rng.random() < 0.5          # a checkpoint after every collect: pauses are then harmless
    n = rng.randint(6, 18)
    since_ckpt = False
    for _ in range(n):
        r = rng.random()
        if r < 0.33:
            f = [rng.choice([0, 0, 1, 1, 2, 3, 5]) if d in declared else 0 for d in range(1, nd + 1)]
            ops.append({"op": "env", "s": "", "ds": [], "f": f})
        elif r < 0.80:
            s = rng.choice(list(decl))
            ds = decl[s][:]
            rng.shuffle(ds)
            ops.append({"op": "collect", "s": s, "ds": ds, "f": []})
            if s in paged_streams:
                ops[-1]["payload"] = rng.random() < 0.5
            since_ckpt = True
            if careful:
                ops.append({"op": "checkpoint", "s": "", "ds": [], "f": []})
                since_ckpt = False
        elif r < 0.84:
            ops.append({"op": "checkpoint", "s": "", "ds": [], "f": []})
            since_ckpt = False
        elif r < 0.87:
            ops.append({"op": "configure", "s": "", "ds": [rng.choice(declared)], "f": []})     # a new descriptor for its stream
        elif r < 0.985:
            ops.append({"op": "pause", "s": "", "ds": [], "f": []})
        else:
            # a group that was not declared for the stream (or nothing declared under that name): ends the run
            s = rng.choice(STREAMS[:ns])
            cand = [sorted(rng.sample(range(1, nd + 1), k)) for k in (1, 2)]
            ds = rng.choice(cand)
            if decl.get(s) == ds:
                continue
            ops.append({"op": "collect", "s": s, "ds": ds, "f": [], "wrong": True})
            break
    return (nd, ns, greedy, lazy, use_async, ops)


def describe_trace(t, upto):
    ev = t[upto] if upto < len(t) else None
    pre = brief(t[:upto])
    if ev is None:
        return "?", pre, "end of trace"
    if ev["op"] == "collect":
        what = (f"collect({ev['s']}, {ev['ds']}) answered get_index={ev['rep']}, passed index={ev['cap']}, emitted "
                f"{[(d['k'], d['d'], d['i0'], d['i1'], d['s0'], d['s1']) for d in ev['docs']]}, raised={ev['err']}")
    elif ev["op"] == "close":
        what = f"stop document num_events={ev['ne']} exit={ev['status']}"
    else:
        what = brief([ev])
    return ev["op"], pre, what


def run(ctx):
    quick = ctx.quick
    procs = 1 if quick else int(os.environ.get("VERIF_C45_PROCS", "4"))
    # 1. exhaustive model checking; the same single-worker runs print every maximal history for the replay
    cfgs = configs(quick)

    def tlc_job(i):
        label, consts, g, lz = cfgs[i]
        p = write_cfg(ctx.out / f"mc{i}.cfg", consts, invariants=["ModelSane"] + INVS, properties=PROPS, constraints=["DumpHist"],
                      raw=["CONSTANTS", f"  GreedySets = {g}", f"  LazyModes = {lz}"])
        return run_tlc("Collect", p, spec_dir=SD, tag=f"C45m{i}", workers=1, timeout=3000, env=JENV)

    def reach_job():
        # thorough tier only: TLC itself refutes the negation of every interesting situation and the strict clauses under the as-found rewind
        if quick:
            return None
        return run_tlc("Collect", "Collect_reach.cfg", spec_dir=SD, tag="C45r", workers=1, timeout=900, extra=["-continue"], env=JENV)

    t0 = time.time()
    with ThreadPoolExecutor(max_workers=len(cfgs) + 1) as ex:
        futs = [ex.submit(tlc_job, i) for i in range(len(cfgs))]
        rf = ex.submit(reach_job)
        results = [f.result() for f in futs]
        reach = rf.result()
    ctx.note(f"TLC phase {time.time() - t0:.1f}s")
    hists_by_cfg = []
    for (label, consts, g, lz), res in zip(cfgs, results):
        ctx.add_tlc(res, f"Collect exhaustive + histories: {label}")
        if not res.ok:
            hist = res.trace[-1][1].get("hist", ()) if res.trace else ()
            ctx.violation(f"spec:{res.violated}:{label}", f"Collect.tla {res.kind} {res.violated} violated on the specification itself ({label}): "
                          f"{brief(list(hist)) if hist else res.stdout[-600:]}", {"tlc_trace": str(res.trace)[:4000]})
            return
        hs = [json.loads(json.loads('"' + m.group(1) + '"')) for m in HIST_RE.finditer(res.stdout)]
        if not hs:
            ctx.machinery(f"no histories printed by TLC for configuration {label}")
        hists_by_cfg.append((consts["ND"], consts["NS"], hs))
    ctx.cov["exhaustive"] = True
    # vacuity: the interesting situations are reachable, and the as-found rewind alone refutes the strict clauses
    if reach is not None:
        ctx.add_tlc(reach)
        refuted = set(re.findall(r"Invariant (\S+) is violated", reach.stdout))
        if refuted != set(REACH):
            ctx.machinery(f"Collect_reach.cfg: expected TLC to refute {sorted(REACH)}, it refuted {sorted(refuted)}")
        ctx.note("reachable in the model (negations refuted by TLC): joint collect without new frames, refusal after partial emission, undeclared "
                 "group, two streams with events, uneven get_index answers; the as-found rewind refutes C45_SeqContiguous_Strict / "
                 "C45_NumEvents_Strict (KF-C45-1)")

    # 2. spec -> code
    t0 = time.time()
    stats = do_replay(ctx, hists_by_cfg, procs)
    ctx.note(f"replayed inputs: {stats} in {time.time() - t0:.1f}s")
    for k in ("with_datums", "raise", "raise_partial", "undeclared", "no_new_frames", "two_streams", "pause", "asfound_alt", "joint_uneven"):
        if not stats[k]:
            ctx.machinery(f"vacuous replay set: no history with {k}")
    ctx.rule = ("cases = every maximal history printed by TLC (detector kinds, declare / env / collect / checkpoint / pause sequence) grouped by "
                "input and executed once on a real RunEngine, compared operation by operation with the behaviours the specification has for "
                "that input; non-trivial = at least one stream_datum emitted; distinct by input; plus seeded random longer runs validated by "
                "TLC (CollectTrace conform + monitor modes), distinct by (detector kinds, operation sequence)")

    # 3. code -> spec
    rng = random.Random(ctx.seed)
    n = 150 if quick else 1500
    inputs = [random_input(rng) for _ in range(n)]
    t0 = time.time()
    results = run_inputs(inputs, procs)
    ctx.note(f"random runs executed in {time.time() - t0:.1f}s")
    traces, metas = [], []
    for inp, (events, problems, exc) in zip(inputs, results):
        t = [{k: v for k, v in e.items() if k not in ("replay", "_rep", "_cap")} for e in events]
        traces.append(t)
        metas.append({"nd": inp[0], "ns": inp[1], "greedy": list(inp[2]), "lazy": inp[3], "async": inp[4], "ops": inp[5], "exception": exc})
        ctx.case(json.dumps([list(inp[2]), inp[3], inp[4], [(o["op"], o["s"], o["ds"], o["f"]) for o in inp[5]]]),
                 any(d["k"] == "datum" for e in t for d in e["docs"]))
        if problems:
            ctx.violation(f"trace-shape:{problems[0]}", f"{brief(t)}: {problems}", {"case": metas[-1], "trace": t})
    feats = {"pause": sum(any(e["op"] == "pause" for e in t) for t in traces),
             "replayed_collect": sum(any(e.get("replay") for e in ev) for ev, _, _ in results),
             "raise": sum(any(e["err"] for e in t) for t in traces),
             "two_streams": sum(len({e["s"] for e in t if e["op"] == "collect" and e["docs"]}) > 1 for t in traces),
             "joint3": sum(any(e["op"] == "collect" and len(e["ds"]) == 3 and e["docs"] for e in t) for t in traces)}
    ctx.note(f"random runs: {n}, features {feats}")
    if not all(feats.values()):
        ctx.machinery(f"vacuous random runs: {feats}")

    def val(mode):
        return validate_traces("CollectTrace", "CollectTrace.cfg" if mode == "conform" else "CollectTraceMon.cfg", traces, SD, ctx.out,
                               tag=f"C45t{mode[0]}", env=JENV)
    with ThreadPoolExecutor(max_workers=2) as ex:
        fc, fm = ex.submit(val, "conform"), ex.submit(val, "monitor")
        vc, vm = fc.result(), fm.result()
    ctx.add_tlc(vc.res, "CollectTrace (conform)")
    ctx.add_tlc(vm.res, "CollectTrace (monitors only)")
    bad = set()
    for mode, v in (("monitor", vm), ("conform", vc)):
        if v.invariant:
            i = v.inv_trace_index
            bad.add(i)
            t = traces[i] if i is not None else None
            upto = (v.inv_state or {}).get("l", 1) - 1 if v.inv_state else 0
            op, pre, what = describe_trace(t, upto - 1) if t else ("?", "", "")
            ctx.violation(f"trace-invariant:{v.invariant}:{mode}:{op}", f"{v.invariant} violated ({mode}) on a recorded run at: {what}; before: {pre}",
                          {"case": metas[i] if i is not None else None, "trace": t, "state": str(v.inv_state)[:1500]})
        # (TLC stops at the first violated invariant: the runs it had not finished are then not rejections)
        for idx, upto in sorted(v.rejected.items() if not v.invariant else []):
            bad.add(idx)
            op, pre, what = describe_trace(traces[idx], upto)
            field = ""
            ctx.violation(f"trace-rejected:{mode}:{op}{field}:{pre[-160:]}", f"recorded run is not a behaviour of Collect.tla ({mode}) at event {upto}: {what}; before: {pre}",
                          {"case": metas[idx], "trace": traces[idx], "accepted_prefix": upto})
        if not v.res.ok and not v.invariant and not v.rejected:
            ctx.machinery(f"CollectTrace ({mode}) failed without a verdict:\n{v.res.stdout[-1500:]}")
    kfseen = {int(a) - 1 for a, _ in re.findall(r'<<"KFSEEN", (\d+), (\d+)>>', vc.res.stdout)}
    for idx in sorted(kfseen - bad):
        t = traces[idx]
        ctx.violation(f"{KF}:trace", f"recorded run explained only by the as-found rewind: {brief(t)}; stream datums "
                      f"{[(d['d'], d['i0'], d['i1'], d['s0'], d['s1']) for e in t for d in e['docs'] if d['k'] == 'datum']}, num_events {t[-1]['ne']}",
                      {"case": metas[idx], "trace": t})
    ctx.traces(0 if (vc.invariant or vm.invariant) else len(traces) - len(bad))
    ctx.assumptions += [
        "detectors follow the documented collect_asset_docs(index) behaviour (stream_resource once, one stream_datum [last, index) when there are "
        "new frames, none otherwise) or ignore the index altogether (greedy); empty stream datums are not produced",
        "a detector is declared in and collected into exactly one stream; declarations precede a checkpoint (they are not processed again after a rewind)",
        "frames are written between messages only (the environment step), a pause is requested by Msg('pause') and followed by RE.resume()",
        "documents are observed through RunEngine.subscribe; get_index / collect_asset_docs arguments through the detectors' own ledger",
        "after a raised collect nothing is claimed about num_events (exit_status fail)",
    ]
