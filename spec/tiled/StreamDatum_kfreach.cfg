CONSTANTS
  Part = "cons"
  Off = 1
  CBounds <- CB_none
  MaxChunk = 2
  MaxCLen = 1
  MaxConsume = 1
  MaxDLen = 1
  Mults = {0, 1}
SPECIFICATION Spec
INVARIANT KF_Unreachable
