"""C21 -- plan_mutator inserts head/tail messages exactly as documented.

spec/gen/PlanMutator.tla (plan_mutator's stack machine: plan_stack, result_stack, tail caches, msgs_seen, stashed
exception) with a processor that may answer (head, None), (None, tail) or (head, tail) at any message; host, head
and tail are environment generators obeying spec/gen/Gen.tla.  Monitors in the statement's vocabulary decide the
clauses: C21_HostGetsHeadResponse, C21_TailRightAfterHead, C21_NoReprocess, C21_ExceptionsReachHost,
C21_ReplyToYielder.  TLC checks them for ALL driver scripts x generator reactions x processor answers up to the
bound, on the repaired alternative without exception and on the alternative the code follows with only the
signatures of the open findings exempted.

Spec -> code: every maximal TLC history of the alternative the implementation follows (probed) is executed on the
real plan_mutator with scripted generators and a scripted processor; every interface event is compared.
Code -> spec: random host programs with random inserting processors whose heads/tails are random programs
(probes on every generator), and random bluesky-like hosts wrapped by the real baseline_wrapper,
monitor_during_wrapper and relative_set_wrapper (only driver and host observable, TLC infers the rest), driven by
random scripts, are validated by TLC against PlanMutatorTrace.tla.
"""
import random

from harness import genproto as G
from harness.props.C20 import report_traces

DESIGN_REF = "DESIGN.md section 7 (C21), section 8, Appendix E"
INVS = ["TypeOK", "C21_HostGetsHeadResponse", "C21_TailRightAfterHead", "C21_NoReprocess", "C21_ExceptionsReachHost",
        "C21_ReplyToYielder"]
USERS = ["baseline_wrapper", "monitor_during_wrapper", "relative_set_wrapper"]


def inserts(h):
    return any(e[0] == "proc" and e[2] != "id" for e in h)


def tag_sigs(bad, stale, events):
    """signatures for the C21 clauses TLC's monitors found violated on an execution of the real code.
    events: list of (k, g, op, a)"""
    out = []
    bad = set(bad)
    if "reprocessed" in bad:
        bad.discard("reprocessed")
        # which processor answers produced the generator whose message was handed to the processor again
        ch = sorted({e[2] for e in events if e[0] == "proc" and e[2] != "id"})
        out.append(("reprocess:msg_proc-called-with-inserted-message:" + "+".join(ch),
                    "the processor was called with a message yielded by an inserted (head/tail) generator"))
    if bad and stale:
        out.append(("stale-exception:" + "+".join(sorted(bad)),
                    "an inserted generator handled the exception thrown into it and returned normally, yet plan_mutator "
                    "threw the same exception into the next plan (clauses: " + ", ".join(sorted(bad)) + ")"))
        bad = set()
    for t in sorted(bad):
        out.append((f"clause:{t}:" + " ".join(f"{e[0][0]}{e[1]}{e[2][:2]}" for e in events)[:300], f"C21 clause '{t}' violated"))
    return out


def run(ctx):
    quick = ctx.quick
    variant = G.detect_variant()
    ctx.note(f"implementation follows alternative {variant} (Reprocess, StaleExc; FF = repaired)")
    base = {"Impls": {"plan_mutator"}, "Procs": {"insert"}, "MaxOpsId": 0, "MaxPost": 0, "KeepHist": True, "DumpVariants": {variant}}
    both = {"FF", variant}
    # (MaxOpsIns, MaxGens, alternatives, histories printed and replayed?)
    plan = [(3, 2, both, True)] if quick else [(4, 3, both, False), (4, 2, both, True), (3, 3, {variant}, True)]
    ctx.rule = ("cases = every maximal behaviour of PlanMutator.tla with an inserting processor (driver scripts x host/head/tail "
                "reactions x processor answers id/h/t/ht at every message, up to MaxOpsIns driver operations and MaxGens inserted "
                "generators) for the alternative the code follows, each replayed on the real plan_mutator; distinct by the full "
                "event sequence; non-trivial = the processor inserts at least once.  Plus random programs with random inserting "
                "processors and the real baseline/monitor_during/relative_set wrappers under random driver scripts, validated by TLC.")
    # 1. the design: repaired alternative strictly, as-found alternative modulo the open findings; all histories
    mine = []
    for ops, gens, variants, dump in plan:
        consts = dict(base, MaxOpsIns=ops, MaxGens=gens, Variants=variants)
        label = f"PlanMutator insert exhaustive MaxOpsIns={ops} MaxGens={gens} variants={sorted(variants)}"
        if dump:
            res, hists = G.tlc_histories(ctx, f"C21_exhaustive_{ops}_{gens}", consts, INVS, tag="C21")
        else:
            from harness.tlc import run_tlc, write_cfg
            res = run_tlc("PlanMutator", write_cfg(ctx.out / f"C21_check_{ops}_{gens}.cfg", consts, invariants=INVS),
                          spec_dir=G.SD, tag="C21", timeout=3000)
            hists = []
        ctx.add_tlc(res, label)
        if not res.ok:
            st = res.trace[-1][1] if res.trace else {}
            h = st.get("hist", ())
            ctx.violation(f"spec:{res.violated}:{st.get('variant')}",
                          f"PlanMutator.tla: {res.kind} {res.violated} violated in the model (alternative {st.get('variant')}); history {list(h)}",
                          {"hist": [list(e) for e in h]})
            return
        got = [r for r in hists if r["variant"] == variant]
        if dump and not got:
            ctx.machinery("TLC produced no histories")
        if dump:
            ctx.note(f"MaxOpsIns={ops} MaxGens={gens}: {len(got)} maximal histories of alternative {variant} to replay")
        mine += got
        del hists
    ctx.cov["exhaustive"] = True
    # 2. spec -> code
    nbad = 0
    for rec in mine:
        h = rec["h"]
        ctx.case(G.digest(h), inserts(h))
        _, _, _, singles = G.parse_history(h)
        exp = G.expected_events(h, singles)
        obs, env = G.replay_history(rec)
        d = G.first_diff(exp, obs)
        if d is not None or env.error:
            i, a, b = d if d else (len(exp), None, env.error)
            ctx.violation(f"replay:{G.shape(h)}",
                          f"plan_mutator differs from the specified behaviour at event {i}: expected {a}, implementation {b}",
                          {"history": rec, "observed": obs})
            continue
        if rec["bad"]:
            # the real code followed this behaviour, on which the monitors found clauses of C21 violated
            nbad += 1
            for sig, what in tag_sigs(rec["bad"], rec["stale"], [tuple(e[:4]) for e in h]):
                ctx.violation(sig, what + "; events " + str([tuple(e[:4]) for e in h]), {"history": rec, "observed": obs})
        elif inserts(h):
            ctx.sample({"events": [e[:4] for e in h]})
    ctx.note(f"{nbad} replayed histories violate a clause (all matched against the open findings)")
    # 3. code -> spec
    rng = random.Random(ctx.seed)
    traces, meta = [], []
    with G.quiet_gc():
        for _ in range(120 if quick else 2000):
            t, info = G.insert_trace(rng, variant, size=rng.randint(3, 10 if quick else 14))
            traces.append(t)
            meta.append(info)
        for i in range(90 if quick else 1500):
            user = USERS[i % 3]
            t, src = G.user_trace(rng, user, variant, size=rng.randint(4, 12))
            traces.append(t)
            meta.append({"user": user, "host": src})
    for t, m in zip(traces, meta):
        # non-trivial: something was inserted (probed: the processor answered h/t/ht; wrappers: the driver saw a message
        # that the host did not yield)
        hosty = {e["a"] for e in t["ev"] if e["k"] == "iret" and e["op"] == "yield"}
        nontriv = any(e["k"] == "proc" and e["op"] != "id" for e in t["ev"]) or \
            any(e["k"] == "out" and e["op"] == "yield" and e["a"] not in hosty for e in t["ev"])
        ctx.case(G.digest((m, [(e["op"], e["a"]) for e in t["ev"] if e["k"] == "call"])), nontriv)
    v, tags = report_traces(ctx, traces, meta, "C21t")
    for idx, (bad, stale) in tags.items():
        evs = [(e["k"], e["g"], e["op"], e["a"]) for e in traces[idx]["ev"]]
        for sig, what in tag_sigs(bad, stale, evs):
            ctx.violation(sig, what + f" (implementation trace {idx})", {"trace": traces[idx], "programs": meta[idx]})
    ctx.assumptions += [
        "the host yields a new Msg object at every yield (plan_mutator skips an object it has seen before: known, documented in the "
        "repository's tests); head may pass the original object on",
        "driver as for C20: Exception subclasses only, no StopIteration (PEP 479 turns it into RuntimeError inside "
        "single_gen), nothing after a close() that raised",
        "an exception thrown into head that head handles by returning leaves the value the host then receives unspecified "
        "(the statement does not say); only the delivery as a value is required",
        "for the bluesky wrappers only driver and host are observable: accepted iff SOME behaviour of the specification on which "
        "every clause holds explains the trace (head/tail split is inferred)",
        "when an inserted message is itself expanded (code as found) the clauses are not evaluated for the enclosing insertion",
    ]


def replay(ctx, obj):
    return G.replay_file(ctx, obj)
