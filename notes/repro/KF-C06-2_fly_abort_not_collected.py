"""KF-C06-2: a @run_decorator plan that flies (kickoff / complete / collect), aborted between kickoff and collect -- the flyer
is never collected (no collection is even attempted).

run_wrapper closes the run in its own clean-up when RequestAbort is thrown into the plan; RunBundler.close_run forgets the
bundler's _uncollected set, and the engine's backstop_collect (RunEngine._run, finally block) only looks at runs that are
still open when the engine exits.  (bp.fly itself is not run-decorated: aborted, it leaves its run open and the backstop
collection works; fly_during_wrapper inserts complete/collect in front of the clean-up's close_run.)

usage: PYTHONPATH=/repo/src /venv/bin/python notes/repro/KF-C06-2_fly_abort_not_collected.py
"""
import threading
import time

import bluesky.plan_stubs as bps
import bluesky.preprocessors as bpp
from bluesky import RunEngine
from bluesky.utils import RunEngineInterrupted
from ophyd.status import Status


class Flyer:
    name = "fly1"
    parent = None

    def __init__(self):
        self.calls = []

    def kickoff(self):
        self.calls.append("kickoff")
        st = Status()
        st.set_finished()
        return st

    def complete(self):
        self.calls.append("complete")
        self.st = Status()              # finishes 1 s later: the abort lands while the plan waits for it
        threading.Timer(1.0, self.st.set_finished).start()
        return self.st

    def describe_collect(self):
        return {"fly1_stream": {"x": {"source": "s", "dtype": "number", "shape": []}}}

    def collect(self):
        self.calls.append("collect")
        yield {"time": time.time(), "data": {"x": 1}, "timestamps": {"x": 0.0}}


RE = RunEngine({}, context_managers=[])
docs = []
RE.subscribe(lambda n, d: docs.append(n))
fly = Flyer()


def hook(msg):
    if msg.command == "complete":
        threading.Thread(target=lambda: (time.sleep(0.2), RE.abort("user"))).start()


RE.msg_hook = hook


@bpp.run_decorator()
def my_fly_scan():
    yield from bps.kickoff(fly, wait=True)
    yield from bps.complete(fly, wait=True)
    yield from bps.collect(fly)


try:
    RE(my_fly_scan())
except RunEngineInterrupted:
    pass
time.sleep(1.2)
print("engine state:", RE.state, " documents:", docs, " flyer calls:", fly.calls)
if "collect" not in fly.calls:
    print("FAIL: the flyer was kicked off and the engine is idle again, but no collection was attempted")
else:
    print("PASS")
