"""Shared machinery of C20 / C21: the generator protocol bound to real Python generators.

* Env / Probe        label registry and an interface recorder around any generator (send/throw/close -> outcome)
* scripted()         a REAL generator whose reactions follow a script chosen by TLC (spec -> code replay)
* replay_history()   one TLC behaviour of spec/gen/PlanMutator.tla executed on the real plan_mutator / msg_mutator
* bare_reference()   the same driver script and parent script on the bare generator (C20's reference)
* ProgGen            random plan programs from a small grammar, emitted as Python source and exec'ed, so they are
                     real generators (yield, yield from, try/except/finally with yields, raise, return, loops)
* program_trace() / insert_trace() / user_trace()
                     random driver scripts on wrapped programs (identity processor / random inserting processor / the
                     real baseline, monitor_during and relative_set wrappers); interface events logged for TLC
* tlc_histories() / validate()   TLC runs (exhaustive + history dump; batch trace validation)

Events are dicts {k, g, op, a}: see spec/gen/PlanMutatorTrace.tla.
"""
from __future__ import annotations

import random
import re

from harness.tlc import SPEC, run_tlc, write_cfg

SD = SPEC / "gen"


# --------------------------------------------------------------------------------------------------------------
# labels, probes
# --------------------------------------------------------------------------------------------------------------
class LErr(Exception):
    """exception raised by plan programs / scripted generators"""


class DrvErr(Exception):
    """exception thrown by the driver"""


class DrvErrSub(DrvErr):
    pass


class Resp(dict):
    """a driver response that bluesky's own stub plans can digest (a reading) and that has an identity"""


class Env:
    """label registry and event log of one execution"""

    def __init__(self):
        self.log = []
        self.code = []            # (g, op, a): operations seen by the CODE of scripted generators
        self._lab = {}            # id(obj) -> label
        self._obj = {}            # label -> obj
        self._keep = []
        self.nm = self.nx = self.nr = self.nu = 0
        self._flip = False
        self.creator = {}         # message label -> generator id that created it
        self.error = None
        self.frozen = False
        self.driving = False      # a driver operation is in progress (not garbage collection of a suspended generator)

    # -- registry
    def register(self, obj, label):
        self._lab[id(obj)] = label
        self._obj[label] = obj
        self._keep.append(obj)
        return obj

    def lab(self, x):
        if x is None:
            return "None"
        if isinstance(x, str):
            return x
        got = self._lab.get(id(x))
        if got is not None:
            return got
        if isinstance(x, BaseException):
            return type(x).__name__
        self.nu += 1
        self.register(x, f"u{self.nu}")
        return f"u{self.nu}"

    def ev(self, k, g, op, a):
        if self.frozen:           # the recorded execution is over (what garbage collection does later is not part of it)
            return
        self.log.append({"k": k, "g": g, "op": op, "a": a})

    # -- objects for labels (replay: the label comes from TLC)
    def msg(self, label, gid=0):
        from bluesky.utils import Msg
        if label in self._obj:
            return self._obj[label]
        self.creator[label] = gid
        return self.register(Msg(label), label)

    def val(self, label):
        return None if label == "None" else label

    def exc(self, label, cls=LErr):
        if label in self._obj:
            return self._obj[label]
        return self.register(cls(label), label)

    def flip(self):
        self._flip = not self._flip
        return self._flip

    # -- fresh objects (programs: the label is assigned here)
    def newmsg(self, gid, cmd="m", obj=None, args=()):
        from bluesky.utils import Msg
        self.nm += 1
        label = f"{cmd}{self.nm}"
        self.creator[label] = gid
        return self.register(Msg(cmd, obj, *args), label)

    def newexc(self):
        self.nx += 1
        return self.register(LErr(f"x{self.nx}"), f"x{self.nx}")

    def newret(self):
        self.nr += 1
        return f"r{self.nr}"


class Probe:
    """Records the caller-side interface of a generator.  plan_mutator / msg_mutator only use send, throw, close
    and the identity of the object, so the probe can stand in for the generator it wraps."""

    def __init__(self, gen, gid, env):
        self.gen, self.gid, self.env = gen, gid, env

    def __iter__(self):
        return self

    def __next__(self):
        return self.send(None)

    def _do(self, op, a, fn):
        env = self.env
        env.ev("icall", self.gid, op, a)
        try:
            m = fn()
        except StopIteration as e:
            env.ev("iret", self.gid, "return", env.lab(e.value))
            raise
        except BaseException as e:
            env.ev("iret", self.gid, "raise", env.lab(e))
            raise
        if op == "close":
            env.ev("iret", self.gid, "closed", "None")
        else:
            env.ev("iret", self.gid, "yield", env.lab(m))
        return m

    def send(self, v):
        return self._do("send", self.env.lab(v), lambda: self.gen.send(v))

    def throw(self, typ, val=None, tb=None):
        e = typ if isinstance(typ, BaseException) else (val if isinstance(val, BaseException) else typ())
        return self._do("throw", self.env.lab(e), lambda: self.gen.throw(e))

    def close(self):
        return self._do("close", "None", lambda: self.gen.close())


def scripted(script, env, gid):
    """A real generator whose body reacts as the script says.  script: list of (rop, a), one entry per time the
    body runs: yield a | return a | raise a | closed (GeneratorExit: return or let it propagate)."""
    cur = None           # exception the body was resumed with
    closing = False
    for rop, a in script:
        if rop == "raise" and closing and a == "RuntimeError":
            rop, a = "yield", "ignored-exit"            # yielding on GeneratorExit: close() raises RuntimeError
        if rop == "yield":
            try:
                v = yield env.msg(a, gid)
                cur, closing = None, False
                env.code.append((gid, "send", env.lab(v)))
            except GeneratorExit as ge:
                if not env.driving:
                    return None                          # garbage collection of a generator left suspended
                cur, closing = ge, True
                env.code.append((gid, "close", "None"))
            except BaseException as e:  # noqa
                cur, closing = e, False
                env.code.append((gid, "throw", env.lab(e)))
        elif rop == "return":
            return env.val(a)
        elif rop == "raise":
            if cur is not None and env.lab(cur) == a:
                raise cur                                # let the exception it was resumed with through
            raise env.exc(a)
        elif rop == "closed":
            if closing and env.flip():
                raise cur                                # GeneratorExit propagates
            return None
    env.error = f"script of generator {gid} exhausted"
    raise LErr("script-exhausted")


def drive(w, ops, env, stop_after_failed_close=True):
    """the driver: perform ops (op, label) on w, log call/out events"""
    for op, a in ops:
        env.ev("call", 0, op, a)
        thrown = None
        env.driving = True
        try:
            if op == "send":
                m = w.send(env._obj.get(a, env.val(a)))
                out = ("yield", env.lab(m))
            elif op == "throw":
                thrown = env._obj.get(a) or env.exc(a, DrvErr)
                m = w.throw(thrown)
                out = ("yield", env.lab(m))
            else:
                w.close()
                out = ("closed", "None")
        except StopIteration as e:
            out = ("raise", env.lab(e)) if e is thrown else ("return", env.lab(e.value))
        except BaseException as e:  # noqa
            out = ("raise", env.lab(e))
        env.driving = False
        env.ev("out", 0, *out)
        if stop_after_failed_close and op == "close" and out[0] == "raise":
            break


# --------------------------------------------------------------------------------------------------------------
# spec -> code: replay of TLC histories
# --------------------------------------------------------------------------------------------------------------
def parse_history(h):
    """h: list of [k, g, op, a, c].  -> driver ops, per-generator scripts, processor choices, single_gen ids"""
    ops = [(e[2], e[3]) for e in h if e[0] == "call"]
    scripts = {}
    for e in h:
        if e[0] == "iret" and e[4] == 1:
            scripts.setdefault(e[1], []).append((e[2], e[3]))
    choices = [e[2] for e in h if e[0] == "proc"]
    singles = set()
    n = 1
    for c in choices:
        if c == "h":
            n += 1
        elif c == "ht":
            n += 2
        elif c == "t":
            singles.add(n + 2)
            n += 2
    return ops, scripts, choices, singles


def expected_events(h, singles):
    return [{"k": e[0], "g": e[1], "op": e[2], "a": e[3]} for e in h
            if not (e[0] in ("icall", "iret") and e[1] in singles)]


def replay_history(rec):
    """run the behaviour on the real implementation; returns (observed events, env)"""
    from bluesky.preprocessors import msg_mutator, plan_mutator
    ops, scripts, choices, _ = parse_history(rec["h"])
    env = Env()
    host = Probe(scripted(scripts.get(1, []), env, 1), 1, env)
    choices = list(choices)
    ngen = [1]

    def mk(gid):
        return Probe(scripted(scripts.get(gid, []), env, gid), gid, env)

    if rec["impl"] == "plan_mutator":
        def msg_proc(msg):
            c = choices.pop(0) if choices else "id"
            env.ev("proc", 0, c, env.lab(msg))
            n = ngen[0]
            if c == "h":
                ngen[0] += 1
                return mk(n + 1), None
            if c == "ht":
                ngen[0] += 2
                return mk(n + 1), mk(n + 2)
            if c == "t":
                ngen[0] += 2                 # n + 2 is the single_gen(msg) plan_mutator makes itself
                return None, mk(n + 1)
            return None, None
        w = plan_mutator(host, msg_proc)
    else:
        def msg_proc(msg):
            env.ev("proc", 0, "id", env.lab(msg))
            return msg
        w = msg_mutator(host, msg_proc)
    drive(w, ops, env)
    env.frozen = True
    return env.log, env


def bare_reference(rec):
    """C20 reference: the bare scripted parent under the same driver operations"""
    ops, scripts, _, _ = parse_history(rec["h"])
    env = Env()
    g = scripted(scripts.get(1, []), env, 1)
    drive(g, ops, env)
    env.frozen = True
    return env.log, env


def first_diff(exp, obs):
    for i, (a, b) in enumerate(zip(exp, obs)):
        if a != b:
            return i, a, b
    if len(exp) != len(obs):
        i = min(len(exp), len(obs))
        return i, (exp[i] if i < len(exp) else None), (obs[i] if i < len(obs) else None)
    return None


def digest(obj):
    """compact key for ctx.case (distinctness of a case = its full content)"""
    import hashlib
    return hashlib.blake2b(repr(obj).encode(), digest_size=12).hexdigest()


def shape(h):
    """signature of a history: the sequence of (kind, generator, operation) without labels"""
    return " ".join(f"{e[0][0] if e[0] != 'iret' else 'r'}{e[1]}{e[2][:2]}" for e in h)


def detect_variant():
    """Which alternative does the implementation follow at the two points that are modelled both ways?
    Reprocess: is the processor called with a message yielded by an inserted generator?
    StaleExc: is an exception that a tail handled (returning normally) thrown into the host anyway?
    (Only steers which behaviours are replayed / which alternative a trace is checked against; a wrong answer
    makes traces and replays fail, it cannot make them pass.)"""
    from bluesky.preprocessors import plan_mutator
    from bluesky.utils import Msg
    seen = []

    def host():
        try:
            yield Msg("a")
        except DrvErr:
            seen.append("host-exc")
        yield Msg("b")

    def tail():
        try:
            yield Msg("t")
        except DrvErr:
            pass

    def proc(msg):
        seen.append(msg.command)
        if msg.command == "a":
            return None, tail()
        return None, None
    try:
        g = plan_mutator(host(), proc)
        g.send(None)
        g.send(1)          # -> t
        g.throw(DrvErr("probe"))
        g.close()
    except BaseException:  # noqa  (a broken implementation is judged by the replay, not here)
        pass
    return ("T" if "t" in seen else "F") + ("T" if "host-exc" in seen else "F")


_RE_HEAD = re.compile(r'\s*"(\w+)",\s*"(\w+)",\s*"(\w+)",')
_RE_EV = re.compile(r'<<"(\w+)", (\d+), "(\w+)", "([^"]*)", (\d)>>')
_RE_TAIL = re.compile(r'>>,\s*(\{[^}]*\}),\s*(TRUE|FALSE)\s*>>')


def parse_hist_dump(stdout):
    """records printed by the DumpHist constraint: <<"HIST", impl, proc, variant, hist, bad, stale>> (TLC value syntax,
    pretty-printed over several lines)"""
    out = []
    parts = stdout.split('<< "HIST",')
    for part in parts[1:]:
        hd = _RE_HEAD.match(part)
        evs = _RE_EV.findall(part)
        tl = _RE_TAIL.search(part, hd.end() if hd else 0)
        # integrity: every event tuple of the record was recognised (guards against interleaved / wrapped output)
        if not hd or not tl or part.count('<<"', 0, tl.end()) != len(evs):
            raise RuntimeError("unparsable history record in TLC output: " + part[:400])
        out.append({"impl": hd.group(1), "proc": hd.group(2), "variant": hd.group(3),
                    "h": [[k, int(g), op, a, int(c)] for k, g, op, a, c in evs],
                    "bad": re.findall(r'"(\w+)"', tl.group(1)), "stale": tl.group(2) == "TRUE"})
    return out


def tlc_histories(ctx, name, constants, invariants, tag, timeout=3000):
    """exhaustive TLC run with every maximal history printed; returns (result, histories)"""
    cfgp = write_cfg(ctx.out / f"{name}.cfg", constants, invariants=invariants, constraints=["DumpHist"])
    res = run_tlc("PlanMutator", cfgp, spec_dir=SD, tag=tag, timeout=timeout)
    hists = parse_hist_dump(res.stdout)
    return res, hists


# --------------------------------------------------------------------------------------------------------------
# code -> spec: random plan programs (real generators made from source text)
# --------------------------------------------------------------------------------------------------------------
class ProgGen:
    """random programs of the grammar

        block  := stmt*
        stmt   := yield | yield-original-message | yield from <sub-program> | raise | return
                | try block [except <class> block-or-reraise] [finally block] | for-loop(2) block | if-last-was-sent block
    emitted as Python source.  `size` bounds the number of statements, `depth` the nesting."""

    HANDLERS = ["Exception", "Exception", "LErr", "DrvErr", "BaseException", "GeneratorExit", "KeyError"]

    def __init__(self, rng, cmds=("m",), allow_orig=False, size=10, depth=3):
        self.rng, self.cmds, self.allow_orig = rng, list(cmds), allow_orig
        self.budget = size
        self.maxdepth = depth
        self.subs = []
        self.nyield = 0

    def stmt(self, depth, in_handler):
        r = self.rng.random()
        self.budget -= 1
        if r < 0.42 or depth >= self.maxdepth:
            self.nyield += 1
            if self.allow_orig and self.rng.random() < 0.35:
                return ["_v = yield orig"]
            return [f"_v = yield c.newmsg({self.rng.choice(self.cmds)!r})"]
        if r < 0.52:
            name = f"sub{len(self.subs)}"
            self.subs.append(None)
            idx = len(self.subs) - 1
            body = self.block(depth + 1, False)
            self.subs[idx] = (name, body)
            return [f"_r = yield from {name}(c, orig)"]
        if r < 0.60:
            return ["raise c.newexc()"] if not (in_handler and self.rng.random() < 0.5) else ["raise"]
        if r < 0.66:
            return ["return c.newret()"]
        if r < 0.72:
            return ["for _i in range(2):"] + self.indent(self.block(depth + 1, in_handler, force=True))
        if r < 0.76:
            return ["if _v is not None:"] + self.indent(self.block(depth + 1, in_handler, force=True))
        # try statement
        out = ["try:"] + self.indent(self.block(depth + 1, in_handler, force=True))
        kind = self.rng.random()
        if kind < 0.75:
            out += [f"except {self.rng.choice(self.HANDLERS)}:"] + self.indent(self.block(depth + 1, True, force=True))
        if kind >= 0.45:
            out += ["finally:"] + self.indent(self.block(depth + 1, in_handler, force=True, no_return=self.rng.random() < 0.8))
        return out

    @staticmethod
    def indent(lines):
        return ["    " + ln for ln in lines]

    def block(self, depth, in_handler, force=False, no_return=False):
        lines = []
        n = self.rng.randint(1 if force else 0, 3)
        for _ in range(n):
            if self.budget <= 0:
                break
            st = self.stmt(depth, in_handler)
            if no_return and st[0].startswith("return"):
                st = ["pass"]
            lines += st
        return lines or ["pass"]

    def source(self, prefix=(), suffix=()):
        body = list(prefix)
        while self.budget > 0:
            body += self.stmt(0, False)
        body += list(suffix)
        src = ""
        for name, b in self.subs:
            src += f"def {name}(c, orig):\n    _v = None\n" + "\n".join(self.indent(b)) + "\n    if False:\n        yield\n\n"
        src += "def main(c, orig=None):\n    _v = None\n" + "\n".join(self.indent(body)) + "\n    if False:\n        yield\n"
        return src


class Ctx:
    """what a program sees: fresh messages / exceptions / return values tagged with the generator that made them"""

    def __init__(self, env, gid, objs=None):
        self.env, self.gid, self.objs = env, gid, objs or {}

    def newmsg(self, cmd):
        obj, args = self.objs.get(cmd, (None, ()))
        return self.env.newmsg(self.gid, cmd, obj, args)

    def newexc(self):
        return self.env.newexc()

    def newret(self):
        return self.env.newret()


class quiet_gc:
    """programs left suspended are closed by the garbage collector; what they raise then is not part of any execution"""

    def __enter__(self):
        import sys
        self.old = sys.unraisablehook
        sys.unraisablehook = lambda *a: None

    def __exit__(self, *a):
        import gc
        import sys
        gc.collect()
        sys.unraisablehook = self.old


def compile_prog(src):
    ns = {"LErr": LErr, "DrvErr": DrvErr}
    exec(compile(src, "<prog>", "exec"), ns)
    return ns["main"]


THROWABLE = [DrvErr, DrvErr, DrvErrSub, LErr, ValueError, KeyError, RuntimeError, StopIteration]


def random_ops(rng, n, psend=0.62, pthrow=0.28):
    """driver script: list of op kinds; the arguments are made when performed"""
    out = []
    for _ in range(n):
        r = rng.random()
        out.append("send" if r < psend else ("throw" if r < psend + pthrow else "close"))
    if out and rng.random() < 0.9:
        out[0] = "send"
    return out


def drive_random(w, env, rng, kinds, resp=None, post=1, throwable=None):
    """perform the driver script with fresh labelled arguments; stops like the model's driver: after a close()
    that raised, and `post` operations after the generator has finished"""
    finished = False
    after = 0
    for i, kind in enumerate(kinds):
        if kind == "send":
            if i == 0:
                a = "None"
            else:
                a = f"v{i + 1}"
                if resp is not None:
                    env.register(resp(i + 1), a)
        elif kind == "throw":
            a = f"e{i + 1}"
            env.register(rng.choice(throwable or THROWABLE)(a), a)
        else:
            a = "None"
        if finished:
            if after >= post:
                break
            after += 1
        drive(w, [(kind, a)], env)
        out = env.log[-1]
        if kind == "close" and out["op"] == "raise":
            break
        if out["op"] in ("return", "raise", "closed"):
            finished = True


def program_trace(rng, impl, seed_src=None, size=10):
    """one random program under the identity processor, wrapped in the real impl; returns (trace record, source,
    wrapped outs, bare outs, wrapped code-level ops... )"""
    from bluesky.preprocessors import msg_mutator, plan_mutator
    src = seed_src or ProgGen(rng, size=size).source()
    main = compile_prog(src)
    kinds = random_ops(rng, rng.randint(2, 14))
    dseed = rng.random()
    logs = []
    for wrapped in (True, False):
        env = Env()
        prog = main(Ctx(env, 1))
        if wrapped:
            host = Probe(prog, 1, env)
            if impl == "plan_mutator":
                def msg_proc(msg, env=env):
                    env.ev("proc", 0, "id", env.lab(msg))
                    return None, None
                w = plan_mutator(host, msg_proc)
            else:
                def msg_proc(msg, env=env):
                    env.ev("proc", 0, "id", env.lab(msg))
                    return msg
                w = msg_mutator(host, msg_proc)
        else:
            w = prog
        drive_random(w, env, random.Random(dseed), kinds)
        env.frozen = True
        logs.append(env.log)
    return {"impl": impl, "proc": "identity", "variant": "FF", "hidden": False, "ev": logs[0]}, src, logs[1]


def outs_of(log):
    return [(e["op"], e["a"]) for e in log if e["k"] == "out"]


def insert_trace(rng, variant, size=8):
    """a random host program under a random inserting processor whose heads / tails are random programs too"""
    from bluesky.preprocessors import plan_mutator
    host_src = ProgGen(rng, size=size).source()
    heads = [ProgGen(rng, allow_orig=True, size=rng.randint(1, 4), depth=2).source() for _ in range(3)]
    tails = [ProgGen(rng, size=rng.randint(1, 4), depth=2).source() for _ in range(3)]
    env = Env()
    host = Probe(compile_prog(host_src)(Ctx(env, 1)), 1, env)
    ngen = [1]
    used = []

    def mk(gid, src, orig):
        used.append(src)
        return Probe(compile_prog(src)(Ctx(env, gid), orig), gid, env)

    def msg_proc(msg):
        lab = env.lab(msg)
        inserted = env.creator.get(lab, 1) != 1
        r = rng.random()
        if inserted and r < 0.8:
            c = "id"
        else:
            c = rng.choice(["id", "h", "h", "t", "ht", "ht"])
        env.ev("proc", 0, c, lab)
        n = ngen[0]
        if c == "h":
            ngen[0] += 1
            return mk(n + 1, rng.choice(heads), msg), None
        if c == "ht":
            ngen[0] += 2
            return mk(n + 1, rng.choice(heads), msg), mk(n + 2, rng.choice(tails), msg)
        if c == "t":
            ngen[0] += 2
            return None, mk(n + 1, rng.choice(tails), msg)
        return None, None

    w = plan_mutator(host, msg_proc)
    drive_random(w, env, rng, random_ops(rng, rng.randint(3, 20), psend=rng.choice([0.6, 0.75, 0.85]), pthrow=rng.choice([0.1, 0.25])), throwable=THROWABLE[:-1])
    env.frozen = True
    return ({"impl": "plan_mutator", "proc": "insert", "variant": variant, "hidden": False, "ev": env.log},
            {"host": host_src, "inserted": used})


# --------------------------------------------------------------------------------------------------------------
# traces through the real users of plan_mutator (processor and inserted plans are internal: hidden mode)
# --------------------------------------------------------------------------------------------------------------
class FakeDet:
    """protocol-only readable"""
    parent = None

    def __init__(self, name):
        self.name = name

    def read(self):
        return {self.name: {"value": 1.0, "timestamp": 0.0}}

    def describe(self):
        return {self.name: {"source": "fake", "dtype": "number", "shape": []}}

    def __repr__(self):
        return self.name


class FakeMotor(FakeDet):
    """movable without .position and without locate(): relative_set_wrapper has to insert a read"""

    @property
    def hints(self):
        return {"fields": [self.name]}

    def set(self, v):
        raise NotImplementedError


USER_CMDS = {"baseline_wrapper": ["open_run", "close_run", "open_run", "close_run", "set", "read", "null", "checkpoint"],
             "monitor_during_wrapper": ["open_run", "close_run", "open_run", "close_run", "set", "read", "null", "save"],
             "relative_set_wrapper": ["set", "set", "setb", "setb", "read", "null", "open_run", "checkpoint"]}


def user_trace(rng, user, variant, size=9):
    """host program yielding bluesky-like messages, wrapped by a real user of plan_mutator, random driver"""
    import bluesky.preprocessors as bpp
    det, det2, motor, motor2 = FakeDet("det"), FakeDet("det2"), FakeMotor("motor"), FakeMotor("motor2")
    objs = {"set": (motor, (1,)), "read": (det, ()), "setb": (motor2, (2,))}
    cmds = USER_CMDS[user]
    # make the interesting commands likely to come in a sensible order, but do not insist on it
    first = "set" if user == "relative_set_wrapper" else "open_run"
    pre = [f"_v = yield c.newmsg({first!r})"] if rng.random() < 0.6 else []
    suf = ["_v = yield c.newmsg('close_run')"] if rng.random() < 0.5 and user != "relative_set_wrapper" else []
    src = ProgGen(rng, cmds=cmds, size=size).source(pre, suf)
    env = Env()

    class C(Ctx):
        def newmsg(self, cmd):
            obj, args = self.objs.get(cmd, (None, ()))
            return self.env.newmsg(self.gid, "set" if cmd == "setb" else cmd, obj, args)
    host = Probe(compile_prog(src)(C(env, 1, objs)), 1, env)
    if user == "baseline_wrapper":
        w = bpp.baseline_wrapper(host, [det, det2])
    elif user == "monitor_during_wrapper":
        w = bpp.monitor_during_wrapper(host, [det, det2])
    elif user == "relative_set_wrapper":
        w = bpp.relative_set_wrapper(host)
    else:
        raise ValueError(user)

    def resp(i):
        return Resp({n: {"value": float(i), "timestamp": 0.0} for n in ("det", "det2", "motor", "motor2")})
    drive_random(w, env, rng, random_ops(rng, rng.randint(4, 26), psend=rng.choice([0.6, 0.8, 0.9]), pthrow=rng.choice([0.08, 0.18])), resp=resp, throwable=THROWABLE[:-1])
    env.frozen = True
    ev = [e for e in env.log if e["k"] in ("call", "out") or e["g"] == 1]
    return {"impl": "plan_mutator", "proc": "insert", "variant": "F" + variant[1], "hidden": True, "ev": ev}, src


# --------------------------------------------------------------------------------------------------------------
# TLC trace validation (batch; see harness/tracecheck.py for the scheme)
# --------------------------------------------------------------------------------------------------------------
def validate(ctx, traces, tag, timeout=3000):
    """returns (verdict, badtags) with badtags: trace index -> (set of clause tags, stale flag) decided by TLC"""
    from harness.tracecheck import validate_traces
    v = validate_traces("PlanMutatorTrace", "PlanMutatorTrace.cfg", traces, SD, ctx.out, tag=tag, timeout=timeout)
    tags = {}
    for m in re.finditer(r'<<"BADTAGS", (\d+), \{([^}]*)\}, (TRUE|FALSE)>>', v.res.stdout):
        tags[int(m.group(1)) - 1] = (frozenset(re.findall(r'"(\w+)"', m.group(2))), m.group(3) == "TRUE")
    return v, tags


def trace_sig(t, upto):
    """specific signature of a rejected trace: the events around the first one the spec cannot produce"""
    ev = t["ev"]
    win = ev[max(0, upto - 3):upto + 1]
    return "|".join(f"{e['k']}:{e['g']}:{e['op']}" for e in win)


def replay_file(ctx, obj):
    """./check Cxx --replay FILE: run the recorded history / trace again on the implementation"""
    import json
    if isinstance(obj.get("replay"), dict):      # file written by ctx.violation: {sig, what, replay}
        print(obj.get("sig"), "--", obj.get("what"))
        obj = obj["replay"]
    if "history" in obj:
        rec = obj["history"]
        _, _, _, singles = parse_history(rec["h"])
        exp = expected_events(rec["h"], singles)
        obs, env = replay_history(rec)
        d = first_diff(exp, obs)
        print("specified :", json.dumps(exp))
        print("observed  :", json.dumps(obs))
        if rec.get("bad"):
            print("clauses violated on this behaviour (TLC monitors):", rec["bad"], "stale =", rec.get("stale"))
        print("REPRODUCED: differs at event %d: expected %s, implementation %s" % d if d else "implementation follows the specified behaviour")
        return 1 if d or rec.get("bad") else 0
    if "trace" in obj and obj["trace"]:
        v, tags = validate(ctx, [obj["trace"]], "replay")
        print("program(s):", obj.get("program") or obj.get("programs"))
        print("trace rejected at event", v.rejected.get(0) if v.rejected else None, "invariant", v.invariant, "clauses", tags.get(0))
        return 1 if (v.rejected or v.invariant or tags) else 0
    print(json.dumps(obj, indent=1)[:4000])
    return 0
