CONSTANTS
  Kinds = {"finalize_wrapper", "finalize_decorator", "contingency"}
  MaxOps = 12
  BodyMsgs = 6
  HandlerMsgs = 4
  Thrown = {"Err", "Stop", "Abort", "Base"}
  InnerRaise = {"ErrI", "BaseI"}
  CatchThrow = TRUE
  MisbehaveClose = TRUE
  AsCoded = TRUE
SPECIFICATION Spec
VIEW mcview
INVARIANT TypeOK
INVARIANT C22_CleanupAtMostOnce
INVARIANT C22_CleanupAfterEveryExit
INVARIANT C22_CleanupLast
INVARIANT C22_NoCleanupOnClose
INVARIANT C22_NotStartedNothingRuns
INVARIANT C22_ExceptWhenPythonWould
INVARIANT C22_ElseWhenPythonWould
INVARIANT C22_OutcomePreserved
INVARIANT C22_CloseIsQuiet
