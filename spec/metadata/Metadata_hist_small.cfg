CONSTANTS
  AllKeys = {"a", "b", "c", "plan_name", "plan_type", "scan_id"}
  PKeys = {"scan_id"}
  OKeys = {"scan_id"}
  KKeys = {"scan_id"}
  PVals = {2}
  OVals = {2}
  KVals = {2}
  Idents = {11}
  VModes = {"accept", "reject"}
  NModes = {"identity", "rename", "idraise"}
  RenFrom = "a"
  RenTo = "c"
  MaxOpens = 3
  MaxCalls = 2
  MaxCells = 3
  RichRejects = TRUE
  Variant = "fixed"
  KeepHist = TRUE
SPECIFICATION Spec
INVARIANT TypeOK
INVARIANT C17_Precedence
INVARIANT C17_Normalized
INVARIANT C17_IdentityPresent
INVARIANT C17_RejectNoStart
INVARIANT C17_ScanIdCountsOpenedRuns
INVARIANT C17_NoGap
INVARIANT C17_StartScanId
PROPERTY C17_ScanIdStep
CONSTRAINT DumpHist
