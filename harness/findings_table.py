"""Regenerate section 8 of DESIGN.md (between the FINDINGS markers) from KNOWN_FINDINGS.json and /repo's fix commits."""
import json
import subprocess
from pathlib import Path

ROOT = Path(__file__).resolve().parent.parent


def short(s, n):
    s = " ".join(str(s).split()).replace("|", "\\|")
    return s if len(s) <= n else s[:n - 1] + "…"


def main():
    fs = json.loads((ROOT / "KNOWN_FINDINGS.json").read_text())["findings"]
    subj = {}
    for ln in subprocess.run(["git", "-C", "/repo", "log", "--format=%h %s"], capture_output=True, text=True).stdout.splitlines():
        h, _, s = ln.partition(" ")
        subj[h[:7]] = s
    by_commit = {}
    for e in fs:
        if e["status"] == "fixed":
            by_commit.setdefault(e["commit"][:7], []).append(e)
    order = [h for h in reversed(list(subj)) if h in by_commit]
    rows_fixed = []
    for h in order:
        es = by_commit[h]
        props = ", ".join(sorted({e["property"] for e in es}))
        what = "; ".join(short(e["what"], 260) for e in es[:2]) + (f" (+{len(es) - 2} related entries)" if len(es) > 2 else "")
        rows_fixed.append(f"| `{h}` {short(subj.get(h, ''), 90)} | {props} | {', '.join(e['id'] for e in es)} | {what} |")
    rows_open = [f"| {e['id']} | {e['property']} | `{short(e['sig_regex'], 110)}` | {short(e['what'], 420)} |" for e in fs if e["status"] == "open"]
    text = ("Every entry was reproduced on the real code by the machinery before being classified (generated from\n"
            "`KNOWN_FINDINGS.json` by `harness/findings_table.py`).\n\n"
            "### 8.1 Repaired (`fix:` commits in /repo; entries `fixed`: they suppress nothing; the specifications model the repaired behaviour)\n\n"
            "| commit | properties | entries | what failed |\n|---|---|---|---|\n" + "\n".join(rows_fixed) + "\n\n"
            "### 8.2 Open (printed as KNOWN-FINDING lines; identified by the signature class; anything else is a VIOLATION)\n\n"
            "| id | property | signature (regex, `re.fullmatch`) | what fails |\n|---|---|---|---|\n" + "\n".join(rows_open) + "\n")
    p = ROOT / "DESIGN.md"
    s = p.read_text()
    a, b = "<!-- FINDINGS:BEGIN -->", "<!-- FINDINGS:END -->"
    i, j = s.index(a) + len(a), s.index(b)
    p.write_text(s[:i] + "\n" + text + s[j:])
    print(f"{len(rows_fixed)} fix commits, {len(rows_open)} open findings listed")


if __name__ == "__main__":
    main()
