"""Re-run every seeded change (seeded/<id>/patch.diff) against its check: each must still be detected (exit 1 with a
VIOLATION line).  The patch is applied to a scratch git worktree of /repo's HEAD (never to /repo itself); the check runs
against it through VERIF_REPO_SRC, with its output, caches and evidence under out/scratch.

usage: python -m harness.seeded_regress [ids...] [--jobs N]     (exit 1 if a seeded change is no longer detected)"""
import json
import os
import shutil
import subprocess
import sys
import tempfile
from concurrent.futures import ThreadPoolExecutor
from pathlib import Path

ROOT = Path(__file__).resolve().parent.parent


def one(sid):
    prop = sid.split("-")[0]
    wt = Path(tempfile.mkdtemp(prefix=f"sr-{sid}-", dir="/tmp"))
    wt.rmdir()
    try:
        subprocess.run(["git", "-C", "/repo", "worktree", "add", "--detach", str(wt), "HEAD", "-q"], check=True, capture_output=True)
        r = subprocess.run(["git", "-C", str(wt), "apply", str(ROOT / "seeded" / sid / "patch.diff")], capture_output=True, text=True)
        if r.returncode != 0:
            r = subprocess.run(["git", "-C", str(wt), "apply", "--3way", str(ROOT / "seeded" / sid / "patch.diff")], capture_output=True, text=True)
            if r.returncode != 0:
                return sid, "patch-does-not-apply", r.stderr.strip()[:200]
        shutil.copy("/repo/src/bluesky/_version.py", wt / "src/bluesky/_version.py")
        env = dict(os.environ, VERIF_REPO_SRC=str(wt / "src"), VERIF_OUT=str(ROOT / "out" / "scratch" / sid))
        c = subprocess.run([str(ROOT / "check"), prop], capture_output=True, text=True, env=env, cwd=str(ROOT))
        nv = sum(1 for ln in c.stdout.splitlines() if ln.startswith("VIOLATION"))
        first = next((ln for ln in c.stdout.splitlines() if ln.startswith("VIOLATION")), "")
        status = "caught" if (c.returncode == 1 and nv) else ("MISSED" if c.returncode == 0 else f"exit{c.returncode}")
        return sid, status, f"{nv} violations; {first[:160]}"
    finally:
        subprocess.run(["git", "-C", "/repo", "worktree", "remove", "--force", str(wt)], capture_output=True)
        shutil.rmtree(ROOT / "out" / "scratch" / sid, ignore_errors=True)


def main():
    args = [a for a in sys.argv[1:] if not a.startswith("--")]
    jobs = int(sys.argv[sys.argv.index("--jobs") + 1]) if "--jobs" in sys.argv else 3
    if "--jobs" in sys.argv:
        args = [a for a in args if a != str(jobs)]
    ids = args or sorted(d.name for d in (ROOT / "seeded").iterdir() if (d / "patch.diff").exists())
    bad = 0
    with ThreadPoolExecutor(jobs) as ex:
        for sid, status, info in ex.map(one, ids):
            print(f"{sid}: {status}  {info}", flush=True)
            bad += status != "caught"
    subprocess.run(["git", "-C", "/repo", "worktree", "prune"], capture_output=True)
    print(f"{len(ids) - bad} of {len(ids)} seeded changes detected")
    return 1 if bad else 0


if __name__ == "__main__":
    sys.exit(main())
