CONSTANTS
  NCb = 2
  Names = {"all", "stop"}
  PlanIds = {1}
  MaxRaise = 1
  DeliverAll = FALSE
SPECIFICATION Spec
INVARIANT KF_C19_1_Unreachable
