CONSTANTS
  Kinds = {"finalize_wrapper", "finalize_decorator", "contingency"}
  MaxOps = 100000
  BodyMsgs = 0
  HandlerMsgs = 0
  Thrown = {}
  InnerRaise = {}
  CatchThrow = TRUE
  MisbehaveClose = TRUE
  AsCoded = TRUE
SPECIFICATION TraceSpec
INVARIANT C22_CleanupAtMostOnce
INVARIANT C22_CleanupAfterEveryExit
INVARIANT C22_CleanupLast
INVARIANT C22_NoCleanupOnClose
INVARIANT C22_NotStartedNothingRuns
INVARIANT C22_ExceptWhenPythonWould
INVARIANT C22_ElseWhenPythonWould
INVARIANT C22_OutcomePreserved
INVARIANT C22_CloseIsQuiet
POSTCONDITION TraceAccepted
