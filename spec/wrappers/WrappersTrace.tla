--------------------------- MODULE WrappersTrace ---------------------------
(* Batch validation of interface traces recorded from the real wrappers (random nests of finalize_wrapper /   *)
(* finalize_decorator / contingency_wrapper driven by random scripts) against Wrappers.tla.                    *)
(* TRACE_FILE: ndjson, one trace per line: [cfg |-> ..., h |-> <<events>>].  Every event must be produced by  *)
(* the corresponding action of Wrappers.tla (driver operations and delegate reactions are taken from the       *)
(* trace, everything the wrapper does -- which delegate it resumes with what, what it yields / returns /       *)
(* raises -- is dictated by the specification), and every C22 invariant is evaluated in every state.           *)
EXTENDS Wrappers, IOUtils

Traces == ndJsonDeserialize(IOEnv.TRACE_FILE)

VARIABLES tid, l
tvars == <<vars, tid, l>>

TraceInit == /\ Init
             /\ tid \in 1..Len(Traces)
             /\ cfg = Traces[tid].cfg
             /\ l = 1
             /\ TLCSet(tid, 1)

Ev == Traces[tid].h[l]

Step == \/ Ev.g = "drv" /\ Drive(Ev.op, Ev.a)
        \/ Ev.g \in Gens /\ Call(R(Ev.r, Ev.v))
        \/ Ev.g = "out" /\ Out

TraceNext == /\ l <= Len(Traces[tid].h)
             /\ Step
             /\ hist'[Len(hist')] = Ev           \* the specified event is the recorded one, field by field
             /\ l' = l + 1
             /\ UNCHANGED tid
             /\ TLCSet(tid, l + 1)
             /\ (l = Len(Traces[tid].h) /\ kf') => PrintT(<<"KF", tid>>)

TraceSpec == TraceInit /\ [][TraceNext]_tvars

Progress(t) == TLCGet(t)
TraceAccepted ==
    LET bad == {t \in 1..Len(Traces) : Progress(t) # Len(Traces[t].h) + 1}
    IN /\ \A t \in bad : PrintT(<<"REJECTED", t, Progress(t)>>)      \* all of them are reported
       /\ bad = {}
=============================================================================
