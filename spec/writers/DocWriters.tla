----------------------------- MODULE DocWriters -----------------------------
(***************************************************************************)
(* C34 -- bluesky.callbacks.json_writer: JSONWriter and JSONLinesWriter.   *)
(*                                                                         *)
(* The file is abstracted to what a JSON reader sees (the harness parses   *)
(* the real file into this abstraction after every callback call):         *)
(*   shape  "absent" | "open" (text "[" rec "," rec "," ... : becomes an   *)
(*          array when closed) | "closed" (parses as a JSON array) |       *)
(*          "lines" (JSON Lines) | "garbage" (none of these)               *)
(*   recs   the records, each identified by the token of the (name, doc)   *)
(*          pair it is equal to; 0 = a record / line that does not parse   *)
(*          or equals nothing that was written                             *)
(*   term   (lines) the text is empty or ends with a newline               *)
(* Documents written by the callbacks get tokens 1, 2, ...; pre-existing   *)
(* content has tokens 101, 102, ...                                        *)
(*                                                                         *)
(* JSONWriter: start -> (re)create the file: "[" + record + ","            *)
(*             other -> append record + ","      stop -> append record "]" *)
(* JSONLinesWriter: every document -> append record + newline (mode "a" if *)
(*             the file exists, else "w").                                  *)
(* repaired = FALSE is the code as found: appending to a pre-existing file *)
(* whose last line is not newline-terminated glues the first new record to *)
(* that line (KF_C34_1); repaired = TRUE starts a new line first.          *)
(***************************************************************************)
EXTENDS Naturals, Sequences, FiniteSets, TLC, Json

CONSTANTS Writers,      \* subset of {"json", "jsonl"}
          MaxOther,     \* documents between start and stop, per run
          MaxRuns,      \* consecutive runs through the same writer object
          Repaireds     \* subset of BOOLEAN

VARIABLES
  w,          \* which writer
  repaired,
  file,       \* [shape, recs, term]
  pre,        \* the pre-existing file
  run,        \* runs started
  inrun,
  rundocs,    \* tokens of the documents of the current / last run, in order
  alldocs,    \* tokens of all documents given to the writer, in order
  hist        \* [name, tok, file] per call (replay)

vars == <<w, repaired, file, pre, run, inrun, rundocs, alldocs, hist>>

F(shape, recs, term) == [shape |-> shape, recs |-> recs, term |-> term]

PreFiles(k) ==
    IF k = "json"
    THEN {F("absent", <<>>, TRUE), F("closed", <<101, 102>>, TRUE), F("garbage", <<>>, TRUE), F("open", <<101>>, TRUE)}
    ELSE {F("absent", <<>>, TRUE), F("lines", <<>>, TRUE), F("lines", <<101, 102>>, TRUE),
          F("lines", <<101, 102>>, FALSE), F("lines", <<101>>, FALSE)}

InitWith(k, r, f) ==
    /\ w = k /\ repaired = r /\ file = f
    /\ pre = f
    /\ run = 0 /\ inrun = FALSE /\ rundocs = <<>> /\ alldocs = <<>> /\ hist = <<>>

Init == \E k \in Writers, r \in Repaireds : \E f \in PreFiles(k) : InitWith(k, r, f)

Front(s) == SubSeq(s, 1, Len(s) - 1)
Tok == Len(alldocs) + 1

\* what the writer does to the file when called with (name, doc #t)
Write(name, t) ==
    IF w = "json"
    THEN IF name = "start" THEN F("open", <<t>>, TRUE)                                   \* open(..., "w"): earlier content is gone
         ELSE IF name = "stop" THEN F(IF file.shape = "open" THEN "closed" ELSE "garbage", Append(file.recs, t), TRUE)
         ELSE F(file.shape, Append(file.recs, t), TRUE)
    ELSE IF file.shape = "absent" THEN F("lines", <<t>>, TRUE)
         ELSE IF file.term \/ repaired THEN F("lines", Append(file.recs, t), TRUE)
         ELSE F("lines", Append(Front(file.recs), 0), TRUE)      \* glued to the unterminated last line: neither parses

Call(name) ==
    /\ file' = Write(name, Tok)
    /\ alldocs' = Append(alldocs, Tok)
    /\ hist' = Append(hist, [name |-> name, tok |-> Tok, file |-> file'])
    /\ UNCHANGED <<w, repaired, pre>>

Start == /\ ~inrun /\ run < MaxRuns
         /\ Call("start")
         /\ run' = run + 1 /\ inrun' = TRUE /\ rundocs' = <<Tok>>

Other == /\ inrun /\ Len(rundocs) <= MaxOther
         /\ Call("other")
         /\ rundocs' = Append(rundocs, Tok) /\ UNCHANGED <<run, inrun>>

Stop == /\ inrun
        /\ Call("stop")
        /\ rundocs' = Append(rundocs, Tok) /\ inrun' = FALSE /\ UNCHANGED run

\* the previous run's stop never reached this writer (an upstream consumer failed, the session was killed, ...): the next
\* run's start arrives while the writer still is inside a run
StartOver == /\ inrun /\ run < MaxRuns
             /\ Call("start")
             /\ run' = run + 1 /\ inrun' = TRUE /\ rundocs' = <<Tok>>

Next == Start \/ StartOver \/ Other \/ Stop
Spec == Init /\ [][Next]_vars

----------------------------------------------------------------------------
(* The property, in the vocabulary of the statement.                         *)
IsPrefix(a, b) == Len(a) <= Len(b) /\ \A i \in 1..Len(a) : a[i] = b[i]

\* after a run's documents passed through JSONWriter its file parses as a JSON array of exactly those records, in order
C34_ArrayHoldsTheRun == (w = "json" /\ run > 0 /\ ~inrun) => (file.shape = "closed" /\ file.recs = rundocs)

\* JSONLinesWriter: one independently parseable line per document, appended, earlier content still there
KF_C34_1 == w = "jsonl" /\ ~repaired /\ ~pre.term /\ alldocs # <<>>
C34_LinesAppended == w = "jsonl" => (file.recs = pre.recs \o alldocs \/ KF_C34_1)
C34_EarlierContentKept == w = "jsonl" => (IsPrefix(pre.recs, file.recs) \/ KF_C34_1)
C34_EveryLineParses == (w = "jsonl" /\ file.shape = "lines") => ((\A i \in DOMAIN file.recs : file.recs[i] # 0) \/ KF_C34_1)

TypeOK == /\ file.shape \in {"absent", "open", "closed", "lines", "garbage"}
          /\ run \in 0..MaxRuns

\* replay generation: every maximal history
Dump == (run = MaxRuns /\ ~inrun) =>
          PrintT(<<"HIST", ToJson([w |-> w, repaired |-> repaired, pre |-> pre, kf |-> KF_C34_1, ev |-> hist])>>)
=============================================================================
