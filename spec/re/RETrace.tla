------------------------------- MODULE RETrace -------------------------------
(***************************************************************************)
(* Validation of implementation traces (harness/rec.py) against RE.tla.    *)
(* Batch scheme: TRACE_FILE is ndjson, one trace per line = sequence of    *)
(* 7-tuples.  A step of RE is accepted iff its obs' equals the next        *)
(* Len(obs') events of the trace; steps with empty obs' are silent.        *)
(* Environment choices are inferred by TLC: the reaction of the main plan  *)
(* from the logged `gen` event (+ the following `msg` event), device       *)
(* outcomes from the logged `dev` / `stat` events, requests and caller     *)
(* decisions from `req` / `call` events.                                    *)
(***************************************************************************)
EXTENDS REProps, Json, IOUtils

CONSTANTS PlanLib,    \* [id -> sequence of messages]  pre/post plans of suspensions, referenced by `req` events
          ProjKinds   \* event kinds that are compared (per-property projection); the trace file holds only these

Traces == ndJsonDeserialize(IOEnv.TRACE_FILE)

VARIABLES tid, l, tr        \* tr: the chosen trace (carried in the state: IOEnv/ndJsonDeserialize is not cached by TLC)
tvars == <<S, obs, tid, l, mon, tr>>

T == tr
Has(i) == l + i <= Len(T)
At(i) == T[l + i]            \* i-th not yet consumed event (0-based)

TraceInit == /\ Init /\ MonInit /\ l = 1
             /\ LET all == Traces IN \E i \in 1..Len(all) : tid = i /\ tr = all[i] /\ TLCSet(i, 1)

\* the step's outputs are exactly the next events of the trace
Projected(o) == SelectSeq(o, LAMBDA e : e[1] \in ProjKinds)
Consume == LET po == Projected(Deliver(S.tsubs, obs')) IN
           /\ l + Len(po) - 1 <= Len(T)
           /\ \A i \in 1..Len(po) : T[l + i - 1] = po[i]
           /\ l' = l + Len(po)
           /\ UNCHANGED <<tid, tr>>
           /\ TLCSet(tid, IF l' > TLCGet(tid) THEN l' ELSE TLCGet(tid))

NoP == 0
Pre(id) == IF id \in DOMAIN PlanLib THEN PlanLib[id] ELSE <<>>

\* candidate reactions of the main plan, read off the trace: gen event (+ msg event for a yield)
EnvReactions ==
  IF ~Has(0) \/ At(0)[1] # "gen" THEN {}
  ELSE LET g == At(0) IN
       IF g[4] = "yield" THEN
          IF Has(1) /\ At(1)[1] = "msg"
          THEN {Reaction("yield", [Msg(At(1)[2], At(1)[3], At(1)[4], At(1)[5]) EXCEPT !.mid = 0], None, NoP)}
          ELSE {}
       ELSE IF g[4] = "return" THEN {Reaction("return", NoMsg, None, NoP)}
       ELSE {Reaction("raise", NoMsg, e, NoP) : e \in {"PlanErr", "DevErr", "FailedPause", "RequestAbort", "RequestStop", "PlanHalt",
                                                         "Cancelled", "FailedStatus", "IMS", "InvalidCommand", "TransitionError",
                                                         "WaitTimeout", "StopIteration", "GeneratorExit", "Err:ValueError",
                                                         "Err:RuntimeError", "Err:KeyError", "Err:TypeError", "Err:AssertionError", "Err:AttributeError"}}

ReqSuspendT(f, preId, postId) == ReqSuspendA(f, Pre(preId), Pre(postId), preId, postId)
ReleaseT(f) == Release(f)
PreX(id) == IF id \in DOMAIN PlanLib THEN PlanLib[id] ELSE <<>>

Step ==
  \/ /\ S.pc = "fetch"
     /\ LET g == Top1(S.gens) IN
        IF g.k = "env" THEN
           IF g.pos = 0 /\ FetchInput(S).t = "exc" THEN Fetch(Reaction("raise", NoMsg, FetchInput(S).v, NoP))
           ELSE \E r \in EnvReactions : Fetch(r)
        ELSE Fetch(ListReact(g, FetchInput(S)))
  \/ \E d \in {"ok", "raise", "fail", "later", "nostatus"} : Exec(d)
  \/ Start \/ Top \/ Wake \/ AfterSleep0 \/ (\E b \in BOOLEAN : DeliverCancel(b)) \/ CmdDone \/ Exit \/ TailStep \/ (\E cr \in CloseReacts : \E bad \in SUBSET Flyers : Finally(cr, bad) \/ AOpsStep(cr, bad) \/ Backstop(cr, bad)) \/ AOpsCancel \/ BackCancel
     \/ (\E d \in {"ok", "raise"} : CollectDone(d))
  \/ /\ Has(0) /\ At(0)[1] = "req"
     /\ \/ At(0)[2] = "pause" /\ ReqPause(FALSE)
        \/ At(0)[2] = "defer" /\ ReqPause(TRUE)
        \/ At(0)[2] \in {"abort", "stop", "halt"} /\ (ReqTerminate(At(0)[2]) \/ ReqTerminatePaused(At(0)[2]))
        \/ At(0)[2] = "suspend" /\ ReqSuspendT(At(0)[3], At(0)[4], At(0)[5])
        \/ At(0)[2] = "release" /\ ReleaseT(At(0)[3])
        \/ At(0)[2] = "sus_install" /\ SusInstall(At(0)[3])
        \/ At(0)[2] = "sus_remove" /\ SusRemove(At(0)[3])
        \/ At(0)[2] = "sig_put" /\ SigPut(At(0)[3], At(0)[6])
  \/ (\E f \in S.relq : SusRelease(f)) \/ SusCb \/ SusLand \/ SusRet      \* (silent ones are bounded: every future is released / lands once)
  \/ /\ Has(0) /\ At(0)[1] = "stat"
     /\ StatusDone(At(0)[6], At(0)[7] = 1)
  \/ /\ Has(0) /\ At(0)[1] = "req" /\ At(0)[2] = "update"
     /\ MonitorUpdate(At(0)[3])
  \/ /\ Has(0) /\ At(0)[1] = "call"
     /\ \/ At(0)[2] = "run" /\ Call(NoP, At(0)[3] = "ri")
        \/ At(0)[2] = "resume" /\ CallResume
        \/ At(0)[2] \in {"abort", "stop", "halt"} /\ CallTerminate(At(0)[2])
  \/ Return \/ LateReqRet

TraceNext == Step /\ Consume /\ MonNext
TraceReport == Report(tid)

TraceSpec == TraceInit /\ [][TraceNext]_tvars

Progress(t) == TLCGet(t)
TraceAccepted ==
    LET all == Traces
        bad == {t \in 1..Len(all) : Progress(t) # Len(all[t]) + 1}
    IN /\ \A t \in bad : PrintT(<<"REJECTED", t, Progress(t)>>)
       /\ bad = {}
=============================================================================
