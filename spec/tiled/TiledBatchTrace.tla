--------------------------- MODULE TiledBatchTrace ---------------------------
(* Batch validation of TiledWriter executions against TiledBatch.tla.                     *)
(* TRACE_FILE: ndjson; a trace = header [batch, keyof] followed by one event per document   *)
(* handed to the real TiledWriter (event pages unpacked: one event each), a stop, and a      *)
(* `final` event holding what was read back from the in-process Tiled catalog afterwards:    *)
(*   rows[d] = the rows of stream d's internal table in stored order, each [s, v] with       *)
(*             s = seq_num column, v = index of the input event whose time/data/timestamps   *)
(*             the row carries (0 = none);                                                   *)
(*   arr[k]  = length of the array node of external key k (0 = no node);                     *)
(*   meta    = start and stop metadata equal the documents; nodes = exactly the expected     *)
(*             nodes exist (one array per external key with data, one table per stream with  *)
(*             events).                                                                      *)
EXTENDS TiledBatch, IOUtils

Traces == ndJsonDeserialize(IOEnv.TRACE_FILE)

VARIABLES tid, l
tvars == <<vars, tid, l>>

Hd(t) == Traces[t][1]

TraceInit == /\ tid \in 1..Len(Traces)
             /\ l = 2
             /\ TLCSet(tid, 2)
             /\ batch = Hd(tid).batch
             /\ keyof = [r \in Res |-> Hd(tid).keyof[r]]
             /\ Init0

Ev == Traces[tid][l]

\* what is read back after stop must be what the specification says was written; a discrepancy does not stop the
\* validation of the other traces: it is recorded as a negative code in the progress register of the trace
\* (1 rows, 2 arrays, 4 metadata, 8 nodes) and reported by the postcondition
ReadBackCode(e) ==
    (IF \A d \in Streams : e.rows[d] = table[d] THEN 0 ELSE 1)
    + (IF e.arr = ExpectedArr THEN 0 ELSE 2)
    + (IF e.meta THEN 0 ELSE 4)
    + (IF e.nodes THEN 0 ELSE 8)

Step ==
    \/ Ev.op = "event" /\ DoEvent(Ev.d) /\ nev'[Ev.d] = Ev.s
    \/ Ev.op = "stream_datum" /\ DoStreamDatum(Ev.r, Ev.a, Ev.b)
    \/ Ev.op = "redesc" /\ DoRedesc(Ev.d)
    \/ Ev.op = "stop" /\ DoStop
    \/ /\ Ev.op = "final" /\ phase = "closed"
       /\ obs' = [set |-> TRUE, rows |-> Ev.rows, arr |-> Ev.arr, meta |-> Ev.meta, nodes |-> Ev.nodes]
       /\ UNCHANGED <<batch, keyof, phase, nev, cache, table, ext, nrows, cons, recv, nsd>>

TraceNext == /\ l <= Len(Traces[tid])
             /\ Step
             /\ l' = l + 1
             /\ UNCHANGED <<tid, hist>>
             /\ IF Ev.op = "final" /\ ReadBackCode(Ev) # 0
                THEN TLCSet(tid, 0 - ReadBackCode(Ev))
                ELSE TLCSet(tid, l + 1)

TraceSpec == TraceInit /\ [][TraceNext]_tvars

Progress(t) == TLCGet(t)
TraceAccepted ==       \* every trace consumed completely and read back as specified; all the others are printed
    LET bad == {t \in 1..Len(Traces) : Progress(t) # Len(Traces[t]) + 1}
    IN /\ \A t \in bad : IF Progress(t) < 0 THEN PrintT(<<"READBACK", t, 0 - Progress(t)>>)
                                            ELSE PrintT(<<"REJECTED", t, Progress(t)>>)
       /\ bad = {}
=============================================================================
