----------------------------- MODULE Normalizer -----------------------------
(***************************************************************************)
(* C35 (normalizer part) -- bluesky.callbacks.tiled_writer.RunNormalizer.  *)
(*                                                                         *)
(* Implementation-shaped: one action per input document.  State = the      *)
(* normalizer's caches (datum cache, cached references of events whose     *)
(* datum has not arrived, converted Resource cache, frame/carry index      *)
(* bookkeeping per data key, set of emitted stream-resource uids) PLUS the *)
(* caller's view of the documents it handed over (`input`: the nested      *)
(* dictionaries resource_kwargs / datum_kwargs / parameters).  The frame   *)
(* condition of the property is UNCHANGED input on every action.           *)
(*                                                                         *)
(* Two points of the code as found contradict the statement; at each the   *)
(* spec offers the step as coded and the repaired step:                    *)
(*  MutMode   "asfound": resource()/datum()/stream_resource() keep a       *)
(*            shallow copy, so the nested dict is shared with the caller   *)
(*            and later edited in place (hdf5 path->dataset; pop "frame"). *)
(*            "repaired": deep copy, input untouched.                      *)
(*  FrameMode "asfound": ranges of a datum carrying datum_kwargs.frame come*)
(*            from carry/index bookkeeping in CONVERSION order; "repaired":*)
(*            from the referencing event (seq_num-1 .. seq_num).           *)
(* "any" offers both (trace validation accepts either tree).               *)
(*                                                                         *)
(* Abstractions: a nested dict is a set of <<key, value>> string pairs,    *)
(* `frame` is kept apart as an integer (-1 = absent).  Data keys, resources*)
(* and datums are small integers (harness maps names by first occurrence). *)
(* Modelled domain: frames in step with events (frame = seq_num - 1), each *)
(* datum referenced by exactly one event, resources precede their datums.  *)
(***************************************************************************)
EXTENDS Integers, Sequences, FiniteSets, TLC, Json

CONSTANTS MaxEv,        \* events in the (single) stream of the bounded model
          MaxKeys,      \* external data keys
          MutMode,      \* "asfound" | "repaired" | "any"
          FrameMode,    \* "asfound" | "repaired" | "any"
          LateSlots,    \* subset of {"after", "end"}: where a datum may arrive if not before its event
          WithModern,   \* BOOLEAN: include stream_resource / stream_datum (pass-through) runs
          WithHist      \* BOOLEAN: keep the history (replay generation); FALSE: states are the caches only

VARIABLES
  conf,      \* the run being fed (chosen in Init, constant afterwards)
  phase,     \* "start" | "desc" | "open" | "closed"
  nres,      \* resources / stream resources delivered so far (bounded model only)
  nextEv,    \* next event seq_num (bounded model only)
  got,       \* datum id -> slot in which it arrived (bounded model only: canonical orders)
  input,     \* caller's documents: [t, n] -> [frame, kw]          (THE FRAME CONDITION)
  orig,      \* monitor: content of each document at the moment it was handed over
  dcache,    \* RunNormalizer._datum_cache: datum id -> [r]
  sres,      \* RunNormalizer._sres_cache: resource -> parameters
  refs,      \* RunNormalizer._ext_ref_cache: sequence of [id, k, d, s]
  fr,        \* RunNormalizer._next_frame_index: key -> [carry, index]
  emitted,   \* RunNormalizer._emitted: set of <<r, k>>
  out,       \* documents emitted by the last step
  sdm,       \* monitor: datum id -> sequence of ranges of the stream datums emitted for it
  evs,       \* monitor: references [id, k, d, s] made by the events processed so far
  evvals,    \* monitor: [d, s, vin, vout] for emitted events
  nconv,     \* monitor: key -> number of datums converted
  taint,     \* monitor: keys whose frame-carrying datums were converted out of event order (KF-C35-2 scenario)
  hist       \* history of inputs with emitted documents and changed inputs (replayed on the real class)

vars == <<conf, phase, nres, nextEv, got, input, orig, dcache, sres, refs, fr, emitted, out, sdm, evs, evvals, nconv, taint, hist>>

Modes(m) == IF m = "any" THEN {"asfound", "repaired"} ELSE {m}

----------------------------------------------------------------------------
(* nested dictionaries *)
Keys(kw) == {p[1] : p \in kw}
Val(kw, key, dflt) == IF key \in Keys(kw) THEN (CHOOSE p \in kw : p[1] = key)[2] ELSE dflt
Without(kw, ks) == {p \in kw : p[1] \notin ks}
Update(kw, upd) == Without(kw, Keys(upd)) \cup upd
\* parameters["dataset"] = parameters.pop("path", parameters.pop("dataset", ""))
SetDataset(kw) == Without(kw, {"path", "dataset"}) \cup {<<"dataset", Val(kw, "path", Val(kw, "dataset", ""))>>}
Params(kw, hdf5) == IF hdf5 THEN SetDataset(kw) ELSE kw

DocId(t, n) == [t |-> t, n |-> n]
Content(frame, kw) == [frame |-> frame, kw |-> kw]

\* emitted documents: uniformly typed records
E0 == [t |-> "", d |-> 0, k |-> 0, r |-> 0, id |-> 0, s |-> 0, a |-> 0, b |-> 0, sa |-> 0, sb |-> 0, val |-> 0, kw |-> {}, ok |-> TRUE]
EStart == [E0 EXCEPT !.t = "start"]
EStop == [E0 EXCEPT !.t = "stop"]
EDesc(d) == [E0 EXCEPT !.t = "descriptor", !.d = d]
EEvent(d, s, v) == [E0 EXCEPT !.t = "event", !.d = d, !.s = s, !.val = v]
ESres(r, k, kw) == [E0 EXCEPT !.t = "stream_resource", !.r = r, !.k = k, !.kw = kw]
ESdat(id, r, k, d, a, b, sa, sb) == [E0 EXCEPT !.t = "stream_datum", !.id = id, !.r = r, !.k = k, !.d = d, !.a = a, !.b = b, !.sa = sa, !.sb = sb]

Frame0 == [carry |-> 0, index |-> 0]
FrOf(f, k) == IF k \in DOMAIN f THEN f[k] ELSE Frame0
CntOf(f, k) == IF k \in DOMAIN f THEN f[k] ELSE 0
Put(f, k, v) == [x \in (DOMAIN f) \cup {k} |-> IF x = k THEN v ELSE f[x]]
Drop(f, k) == [x \in (DOMAIN f) \ {k} |-> f[x]]

Init0 == /\ phase = "start" /\ nres = 0 /\ nextEv = 1 /\ got = <<>>
         /\ input = <<>> /\ orig = <<>> /\ dcache = <<>> /\ sres = <<>> /\ refs = <<>> /\ fr = <<>> /\ emitted = {}
         /\ out = <<>> /\ sdm = <<>> /\ evs = {} /\ evvals = {} /\ nconv = <<>> /\ taint = {} /\ hist = <<>>

----------------------------------------------------------------------------
(* _convert_datum_to_stream_datum, threaded over the mutable part of the state *)
St == [input |-> input, dcache |-> dcache, refs |-> refs, fr |-> fr, emitted |-> emitted, out |-> <<>>,
       sdm |-> sdm, nconv |-> nconv, taint |-> taint]

\* aliased = datums whose cached copy shares datum_kwargs with the caller's document (all of them in the code as found,
\* none after a deep copy; trace validation reads the set off the observed inputs)
Convert(st, ref, fmode, aliased) ==
    LET id == ref.id
        k == ref.k
        dc == st.dcache[id]
        din == st.input[DocId("datum", id)]     \* the cached datum shares datum_kwargs with the caller when aliased;
                                                \* a private deep copy has the same content (inputs never change otherwise)
        frame == din.frame
        f0 == FrOf(st.fr, k)
        start0 == f0.carry + f0.index
        f1 == IF f0.carry + frame + 1 < start0 THEN [carry |-> start0, index |-> frame + 1]
                                               ELSE [carry |-> f0.carry, index |-> frame + 1]
        coded == frame >= 0 /\ fmode = "asfound"
        a == IF coded THEN start0 ELSE ref.s - 1
        b == IF coded THEN f1.carry + f1.index ELSE ref.s
        uid == <<dc.r, k>>
        newSR == dc.r \in DOMAIN sres /\ uid \notin st.emitted
        srdoc == ESres(dc.r, k, Update(sres[dc.r], din.kw))
        sddoc == ESdat(id, dc.r, k, ref.d, a, b, a + 1, b + 1)
        inOrder == CntOf(st.nconv, k) + 1 = ref.s
    IN [st EXCEPT
          !.input = IF id \in aliased /\ frame >= 0 THEN [@ EXCEPT ![DocId("datum", id)].frame = -1] ELSE @,   \* datum_kwargs.pop("frame")
          !.dcache = Drop(@, id),
          !.fr = IF frame >= 0 THEN Put(@, k, f1) ELSE @,
          !.emitted = IF newSR THEN @ \cup {uid} ELSE @,
          !.out = IF newSR THEN @ \o <<srdoc, sddoc>> ELSE Append(@, sddoc),
          !.sdm = Put(@, id, (IF id \in DOMAIN @ THEN @[id] ELSE <<>>) \o <<[a |-> a, b |-> b, sa |-> a + 1, sb |-> b + 1]>>),
          !.nconv = Put(@, k, CntOf(@, k) + 1),
          !.taint = IF frame >= 0 /\ (~inOrder \/ k \in @) THEN @ \cup {k} ELSE @]

RECURSIVE ProcRefs(_, _, _, _, _)
ProcRefs(st, rs, fmode, defer, aliased) ==   \* event(): convert what is cached (and not postponed), remember the rest
    IF rs = <<>> THEN st
    ELSE LET h == Head(rs)
         IN IF h.id \in DOMAIN st.dcache /\ h.id \notin defer
            THEN ProcRefs(Convert(st, h, fmode, aliased), Tail(rs), fmode, defer, aliased)
            ELSE ProcRefs([st EXCEPT !.refs = Append(@, h)], Tail(rs), fmode, defer, aliased)

RECURSIVE ProcLate(_, _, _, _)
ProcLate(st, rs, fmode, aliased) ==          \* stop(): every cached reference must have its datum by now
    IF rs = <<>> THEN st ELSE ProcLate(Convert(st, Head(rs), fmode, aliased), Tail(rs), fmode, aliased)

Assign(st) == /\ input' = st.input /\ dcache' = st.dcache /\ refs' = st.refs /\ fr' = st.fr /\ emitted' = st.emitted
              /\ sdm' = st.sdm /\ nconv' = st.nconv /\ taint' = st.taint

Changed == {x \in DOMAIN input' : input'[x] # orig'[x] /\ (x \in DOMAIN input => input[x] = orig[x])}
H(op, d, s, k, id, r) == [op |-> op, d |-> d, s |-> s, k |-> k, id |-> id, r |-> r]
Log(h) == hist' = IF WithHist THEN Append(hist, [h |-> h, out |-> out', chg |-> Changed]) ELSE hist

----------------------------------------------------------------------------
(* one action per input document; every argument is the content of that document *)
DoStart ==
    /\ phase = "start" /\ phase' = "desc"
    /\ out' = <<EStart>>
    /\ UNCHANGED <<input, orig, dcache, sres, refs, fr, emitted, sdm, evs, evvals, nconv, taint>>

DoDescriptor(d) ==
    /\ phase \in {"desc", "open"}
    /\ out' = <<EDesc(d)>>
    /\ UNCHANGED <<input, orig, dcache, sres, refs, fr, emitted, sdm, evs, evvals, nconv, taint>>

\* resource(): converted to the stream-resource layout and cached; nothing emitted
DoResource(r, kw, hdf5, mmode) ==
    /\ phase \in {"desc", "open"}
    /\ DocId("resource", r) \notin DOMAIN input
    /\ sres' = Put(sres, r, Params(kw, hdf5))
    /\ input' = Put(input, DocId("resource", r),
                    Content(-1, IF mmode = "asfound" THEN Params(kw, hdf5) ELSE kw))      \* resource_kwargs edited in place
    /\ orig' = Put(orig, DocId("resource", r), Content(-1, kw))
    /\ out' = <<>>
    /\ UNCHANGED <<dcache, refs, fr, emitted, sdm, evs, evvals, nconv, taint>>

\* datum(): cached (shallow copy as found: whether the copy shares datum_kwargs shows when it is converted)
DoDatum(id, r, frame, kw) ==
    /\ phase \in {"desc", "open"}
    /\ DocId("datum", id) \notin DOMAIN input
    /\ dcache' = Put(dcache, id, [r |-> r])
    /\ input' = Put(input, DocId("datum", id), Content(frame, kw))
    /\ orig' = Put(orig, DocId("datum", id), Content(frame, kw))
    /\ out' = <<>>
    /\ UNCHANGED <<sres, refs, fr, emitted, sdm, evs, evvals, nconv, taint>>

\* event(): internal values re-emitted, then every external reference converted or remembered.
\* defer = references postponed to stop although their datum is cached: {} in the code as found; a repair of
\* KF-C35-2 may postpone (any choice satisfies the statement), trace validation reads it off the emitted documents.
DoEvent(d, s, val, rs, fmode, defer, aliased) ==
    /\ phase \in {"desc", "open"}
    /\ LET st == ProcRefs(St, rs, fmode, defer, aliased)
       IN /\ Assign(st)
          /\ out' = <<EEvent(d, s, val)>> \o st.out
    /\ evs' = evs \cup {rs[i] : i \in 1..Len(rs)}
    /\ evvals' = evvals \cup {[d |-> d, s |-> s, vin |-> val, vout |-> val]}
    /\ UNCHANGED <<sres, orig>>

\* stop(): late datums converted in the order of the remembered references, then the stop document
DoStop(fmode, aliased) ==
    /\ phase \in {"desc", "open"}
    /\ \A i \in 1..Len(refs) : refs[i].id \in DOMAIN dcache        \* otherwise RuntimeError (outside the domain)
    /\ LET st == ProcLate([St EXCEPT !.refs = <<>>], refs, fmode, aliased)
       IN /\ Assign([st EXCEPT !.refs = refs])                     \* the code does not clear the list
          /\ out' = st.out \o <<EStop>>
    /\ phase' = "closed"
    /\ UNCHANGED <<sres, orig, evs, evvals>>

\* stream_resource(): current-schema document passed on; hdf5 parameters get "dataset"
DoStreamResource(r, k, kw, hdf5, mmode) ==
    /\ phase \in {"desc", "open"}
    /\ DocId("stream_resource", r) \notin DOMAIN input
    /\ input' = Put(input, DocId("stream_resource", r),
                    Content(-1, IF mmode = "asfound" THEN Params(kw, hdf5) ELSE kw))      \* parameters edited in place
    /\ orig' = Put(orig, DocId("stream_resource", r), Content(-1, kw))
    /\ out' = <<ESres(r, k, Params(kw, hdf5))>>
    /\ UNCHANGED <<dcache, sres, refs, fr, emitted, sdm, evs, evvals, nconv, taint>>

\* stream_datum(): passed on unchanged
DoStreamDatum(id, r, k, d, a, b, sa, sb) ==
    /\ phase \in {"desc", "open"}
    /\ out' = <<ESdat(id, r, k, d, a, b, sa, sb)>>
    /\ UNCHANGED <<input, orig, dcache, sres, refs, fr, emitted, sdm, evs, evvals, nconv, taint>>

----------------------------------------------------------------------------
(* bounded model: the run is described by conf; documents arrive in canonical orders *)
Confs == {c \in [nev : 1..MaxEv, nk : 1..MaxKeys, shared : BOOLEAN, frames : BOOLEAN,
                 rkind : {"plain", "hdf5", "hdf5path"}, modern : BOOLEAN] :
            /\ c.shared => c.nk > 1
            /\ c.modern => (WithModern /\ ~c.shared /\ ~c.frames)}

NRes == IF conf.shared THEN 1 ELSE conf.nk
ResOfKey(k) == IF conf.shared THEN 1 ELSE k
DatumOf(k, s) == (s - 1) * MaxKeys + k
KeyOfDatum(id) == ((id - 1) % MaxKeys) + 1
EvOfDatum(id) == ((id - 1) \div MaxKeys) + 1
IsHdf5 == conf.rkind # "plain"
ResKw == {<<"chunk_shape", "[1]">>} \cup (IF conf.rkind = "hdf5path" THEN {<<"path", "/entry/p">>} ELSE {})
ModernKw == {<<"chunk_shape", "[1]">>} \cup (IF conf.rkind = "hdf5path" THEN {<<"path", "/entry/p">>}
                                             ELSE IF conf.rkind = "hdf5" THEN {<<"dataset", "/entry/d">>} ELSE {})
DatumKw == IF IsHdf5 THEN {<<"dataset", "/entry/d">>} ELSE {<<"point_number", "0">>}
ValOf(s) == 10 + s
AliasedIn(mm) == IF mm = "asfound" THEN 1..(MaxEv * MaxKeys) ELSE {}
RefsOf(s) == [k \in 1..conf.nk |-> [id |-> DatumOf(k, s), k |-> k, d |-> 1, s |-> s]]

Init == /\ conf \in Confs
        /\ Init0

MStart == DoStart /\ UNCHANGED <<conf, nres, nextEv, got>> /\ Log(H("start", 0, 0, 0, 0, 0))
MDesc == /\ phase = "desc" /\ DoDescriptor(1) /\ phase' = "open"
         /\ UNCHANGED <<conf, nres, nextEv, got>> /\ Log(H("descriptor", 1, 0, 0, 0, 0))
MRes == /\ phase = "open" /\ nres < NRes
        /\ \E mm \in Modes(MutMode) :
              IF conf.modern THEN DoStreamResource(nres + 1, nres + 1, ModernKw, IsHdf5, mm) /\ UNCHANGED sres
              ELSE DoResource(nres + 1, ResKw, IsHdf5, mm)
        /\ nres' = nres + 1
        /\ UNCHANGED <<conf, phase, nextEv, got>>
        /\ Log(H(IF conf.modern THEN "stream_resource" ELSE "resource", 0, 0, nres + 1, 0, nres + 1))
InBody == phase = "open" /\ nres = NRes

\* canonical arrival slots of datum (k, s): "early" right before event s (increasing k), "after" right after
\* event s (increasing k, before anything of event s+1), "end" after the last event (increasing id)
SlotOK(k, s, slot) ==
    LET id == DatumOf(k, s)
        sameSlot == {x \in DOMAIN got : got[x] = slot}
    IN CASE slot = "early" -> /\ nextEv = s
                              /\ \A x \in DOMAIN got : EvOfDatum(x) = s => KeyOfDatum(x) < k
         [] slot = "after" -> /\ nextEv = s + 1
                              /\ \A x \in DOMAIN got : EvOfDatum(x) = s + 1 => FALSE
                              /\ \A x \in sameSlot : EvOfDatum(x) = s => KeyOfDatum(x) < k
                              /\ \A x \in DOMAIN got : got[x] # "end"
         [] slot = "end"   -> /\ nextEv = conf.nev + 1 /\ s < conf.nev
                              /\ \A x \in sameSlot : x < id
         [] OTHER -> FALSE

MDatum(k, s) ==
    /\ InBody /\ ~conf.modern
    /\ DatumOf(k, s) \notin DOMAIN got
    /\ IF WithHist
       THEN \E slot \in {"early"} \cup LateSlots :
               /\ SlotOK(k, s, slot)
               /\ got' = Put(got, DatumOf(k, s), slot)
       ELSE got' = Put(got, DatumOf(k, s), "x")          \* any arrival order (after the resources, before stop)
    /\ DoDatum(DatumOf(k, s), ResOfKey(k), IF conf.frames THEN s - 1 ELSE -1, DatumKw)
    /\ UNCHANGED <<conf, phase, nres, nextEv>>
    /\ Log(H("datum", 1, s, k, DatumOf(k, s), ResOfKey(k)))

MStreamDatum(k) ==       \* modern run: the stream datums of event nextEv precede it, in key order
    /\ InBody /\ conf.modern /\ nextEv <= conf.nev
    /\ DatumOf(k, nextEv) \notin DOMAIN got
    /\ \A x \in DOMAIN got : EvOfDatum(x) = nextEv => KeyOfDatum(x) < k
    /\ got' = Put(got, DatumOf(k, nextEv), "early")
    /\ DoStreamDatum(DatumOf(k, nextEv), k, k, 1, nextEv - 1, nextEv, nextEv, nextEv + 1)
    /\ UNCHANGED <<conf, phase, nres, nextEv>>
    /\ Log(H("stream_datum", 1, nextEv, k, DatumOf(k, nextEv), k))

MEvent ==
    /\ InBody /\ nextEv <= conf.nev
    /\ conf.modern => \A k \in 1..conf.nk : DatumOf(k, nextEv) \in DOMAIN got
    /\ \E fm \in Modes(FrameMode), mm \in Modes(MutMode) :
          DoEvent(1, nextEv, ValOf(nextEv), IF conf.modern THEN <<>> ELSE RefsOf(nextEv), fm, {}, AliasedIn(mm))
    /\ nextEv' = nextEv + 1
    /\ UNCHANGED <<conf, phase, nres, got>>
    /\ Log(H("event", 1, nextEv, 0, 0, 0))

MStop ==
    /\ InBody /\ nextEv = conf.nev + 1
    /\ conf.modern \/ \A k \in 1..conf.nk, s \in 1..conf.nev : DatumOf(k, s) \in DOMAIN got
    /\ \E fm \in Modes(FrameMode), mm \in Modes(MutMode) : DoStop(fm, AliasedIn(mm))
    /\ UNCHANGED <<conf, nres, nextEv, got>>
    /\ Log(H("stop", 0, 0, 0, 0, 0))

Next == \/ MStart \/ MDesc \/ MRes \/ MEvent \/ MStop
        \/ \E k \in 1..MaxKeys : (k <= conf.nk /\ MStreamDatum(k))
        \/ \E k \in 1..MaxKeys, s \in 1..MaxEv : (k <= conf.nk /\ s <= conf.nev /\ MDatum(k, s))

Spec == Init /\ [][Next]_vars

----------------------------------------------------------------------------
(* The property, in the vocabulary of the statement *)

\* never modifies the documents it receives (including nested dictionaries)
C35_InputsNeverModified == \A x \in DOMAIN input : input[x] = orig[x]
C35_InputsUnchangedStep == [][\A x \in DOMAIN input : input'[x] = input[x]]_vars       \* UNCHANGED input, per action

\* ... except exactly the three in-place edits of KF-C35-1 (open finding): nothing else may change
KF1_Edit(x, old, new) ==
    \/ x.t = "resource" /\ new.frame = old.frame /\ new.kw = SetDataset(old.kw)          \* resource_kwargs
    \/ x.t = "stream_resource" /\ new.frame = old.frame /\ new.kw = SetDataset(old.kw)   \* parameters
    \/ x.t = "datum" /\ new.kw = old.kw /\ old.frame >= 0 /\ new.frame = -1              \* datum_kwargs.pop("frame")
C35_InputsNeverModified_KF == \A x \in DOMAIN input : input[x] = orig[x] \/ KF1_Edit(x, orig[x], input[x])

\* every datum referenced by an event becomes exactly one stream datum (never more; exactly one once the run is closed)
Emitted(id) == IF id \in DOMAIN sdm THEN sdm[id] ELSE <<>>
C35_ExactlyOneStreamDatum ==
    /\ \A ref \in evs : Len(Emitted(ref.id)) <= 1
    /\ phase = "closed" => \A ref \in evs : Len(Emitted(ref.id)) = 1
    /\ \A id \in DOMAIN sdm : \E ref \in evs : ref.id = id

\* ... whose index and seq_num ranges are those of the event
RangeOf(s) == [a |-> s - 1, b |-> s, sa |-> s, sb |-> s + 1]
C35_RangesMatchEvent == \A ref \in evs : \A i \in 1..Len(Emitted(ref.id)) : Emitted(ref.id)[i] = RangeOf(ref.s)
\* KF-C35-2 (open finding): keys whose frame-carrying datums were converted out of event order are exempt
C35_RangesMatchEvent_KF == \A ref \in evs : ref.k \notin taint => \A i \in 1..Len(Emitted(ref.id)) : Emitted(ref.id)[i] = RangeOf(ref.s)

\* keeps every internal event value
C35_InternalValuesKept == \A e \in evvals : e.vin = e.vout

\* emits only schema-valid documents (the flag is observed by the recorder; the spec never emits an invalid one)
C35_SchemaValid == \A i \in 1..Len(out) : out[i].ok

\* a stream datum is never emitted before its stream resource, which is emitted once
C35_ResourceBeforeDatum == \A i \in 1..Len(out) : out[i].t = "stream_datum" /\ out[i].r \in DOMAIN sres => <<out[i].r, out[i].k>> \in emitted

\* witnesses of the two open findings: the strict property on the as-found specification; the violating history is
\* printed as JSON and replayed on the real class by the harness
Witness == PrintT(<<"WITNESS", ToJson([conf |-> conf, hist |-> hist])>>)
W_InputsNeverModified == C35_InputsNeverModified \/ (Witness /\ FALSE)
W_RangesMatchEvent == C35_RangesMatchEvent \/ (Witness /\ FALSE)
W_NoTaint == taint = {}

TypeOK == /\ phase \in {"start", "desc", "open", "closed"}
          /\ DOMAIN input = DOMAIN orig
          /\ \A x \in DOMAIN dcache : DocId("datum", x) \in DOMAIN input

\* replay generation: print every complete history
DumpHist == (phase = "closed") => PrintT(<<"HIST", ToJson([conf |-> conf, hist |-> hist])>>)
=============================================================================
