"""setup_cmd: (1) java/TLC present, (2) every spec module parses (SANY), (3) check modules import,
(4) bluesky imports from /repo/src."""
import importlib
import sys
import concurrent.futures as cf
from pathlib import Path

ROOT = Path(__file__).resolve().parent.parent


def main():
    from harness.tlc import sany
    mods = sorted(p for p in (ROOT / "spec").rglob("*.tla") if "_TTrace_" not in p.name)
    bad = []
    with cf.ThreadPoolExecutor(8) as ex:
        for p, (ok, out) in zip(mods, ex.map(sany, mods)):
            if not ok:
                bad.append((p, out[-800:]))
    for p, out in bad:
        print(f"SANY FAILED {p}\n{out}")
    n = 0
    for f in sorted((ROOT / "harness" / "props").glob("C*.py")):
        importlib.import_module(f"harness.props.{f.stem}")
        n += 1
    import bluesky
    if not str(bluesky.__file__).startswith("/repo/src"):
        print(f"bluesky imported from {bluesky.__file__}, expected /repo/src")
        return 1
    print(f"setup ok: {len(mods)} TLA+ modules parsed, {n} check modules import, bluesky from {bluesky.__file__}")
    return 1 if bad else 0


if __name__ == "__main__":
    sys.exit(main())
