CONSTANTS
  Cmds = {}
  Objs = {}
  HA = 0
  PA = 0
  HB = 0
  PB = 0
  BCmds = {}
  BObjs = {}
  HC = 0
  PC = 0
  LimPlan = 0
  LimR = 0
  SetR = 0
SPECIFICATION TraceSpec
INVARIANT TypeOK
INVARIANT Conforms
INVARIANT C32_MessagesReturned
INVARIANT C32_MatchingHandlerAnswers
INVARIANT C32_NewestWins
INVARIANT C32_AppendedLoses
INVARIANT C32_PrependedOverridesOlder
INVARIANT C32_ReturnRecorded
INVARIANT C32_LimitsRaiseIffOffending
POSTCONDITION AllSeen
